"""Term model (the generator's own AST) and its JSON encoding.

Hypothesis draws *terms*; valida objects, spec structures, YAML text and the reference
verdicts are all derived from the same term.  Nothing here imports valida.
"""
import json
import hashlib
import pathlib

TYPE_BY_NAME = {
    "int": int,
    "float": float,
    "str": str,
    "list": list,
    "dict": dict,
    "bool": bool,
    "path": pathlib.Path,
    "NoneType": type(None),
    "tuple": tuple,
}
NAME_BY_TYPE = {v: k for k, v in TYPE_BY_NAME.items()}


class Term:
    FIELDS = ()

    def __init__(self, *a, **kw):
        vals = dict(zip(self.FIELDS, a))
        vals.update(kw)
        for f in self.FIELDS:
            setattr(self, f, vals.get(f, self.DEFAULTS.get(f)))

    DEFAULTS = {}

    def __repr__(self):
        return (
            f"{type(self).__name__}("
            + ", ".join(f"{f}={getattr(self, f)!r}" for f in self.FIELDS)
            + ")"
        )

    def __eq__(self, other):
        return type(self) is type(other) and enc(self) == enc(other)

    def __hash__(self):
        return hash(case_hash(self))

    def replace(self, **kw):
        vals = {f: getattr(self, f) for f in self.FIELDS}
        vals.update(kw)
        return type(self)(**vals)


class Null(Term):
    FIELDS = ()
    kind = "value"


class Leaf(Term):
    """kind in {value,key,index}; pre in {None,'length','dtype'}; name = callable name;
    args (tuple) / kwargs (dict) exactly as passed to the DSL class-method."""

    FIELDS = ("kind", "pre", "name", "args", "kwargs")
    DEFAULTS = {"pre": None}

    def __init__(self, kind, pre, name, args=(), kwargs=None):
        self.kind, self.pre, self.name = kind, pre, name
        self.args = tuple(args)
        self.kwargs = dict(kwargs or {})


class Op(Term):
    """same=True: both operands are ONE object (x ^ x with the very same x)."""

    FIELDS = ("op", "l", "r", "same")
    DEFAULTS = {"same": False}


class Prim(Term):
    FIELDS = ("v",)


class Part(Term):
    """ctype in {'map','list','mol'}"""

    FIELDS = ("ctype", "key", "index", "value", "label", "generic")

    def __init__(self, ctype, key=None, index=None, value=None, label=None, generic=False):
        # generic=True (map-or-list parts only): the key condition is given in the generic
        # `condition` slot instead of the `key` slot; it then applies to lists as well, where a
        # key-like condition cannot be evaluated, so the part matches nothing there
        self.generic = generic
        self.ctype = ctype
        self.key = key if key is not None else Null()
        self.index = index if index is not None else Null()
        self.value = value if value is not None else Null()
        self.label = label


class PathT(Term):
    FIELDS = ("parts", "datum", "multi", "order")

    def __init__(self, parts=(), datum=None, multi=None, order="dm"):
        self.parts = list(parts)
        self.datum = datum  # None|'length'|'dtype'|'map_keys'|'map_values'
        self.multi = multi  # None|'first'|'last'|'single'|'all'
        self.order = order  # 'dm' datum first, 'md' multi first


class RuleT(Term):
    FIELDS = ("path", "cond", "cast", "doc")

    def __init__(self, path, cond, cast=None, doc=None):
        self.path = path if isinstance(path, PathT) else PathT(path)
        self.cond = cond
        self.cast = cast  # None | 'bool' | 'int'
        self.doc = doc  # None or normal-form {"description": [...], "examples": [...]}


class SchemaT(Term):
    FIELDS = ("rules",)

    def __init__(self, rules=()):
        self.rules = list(rules)


TERM_CLASSES = {c.__name__: c for c in (Null, Leaf, Op, Prim, Part, PathT, RuleT, SchemaT)}


# --------------------------------------------------------------------------- encoding
def enc(x):
    """Tagged, loss-free JSON encoding of terms and JSON-like values (non-str keys,
    tuples, type objects, int/float/bool distinctions survive)."""
    if x is None or isinstance(x, (bool, str)):
        return x
    if isinstance(x, int):
        return x
    if isinstance(x, float):
        return {"$f": repr(x)}
    if isinstance(x, list):
        return [enc(i) for i in x]
    if isinstance(x, tuple):
        return {"$t": [enc(i) for i in x]}
    if isinstance(x, dict):
        return {"$d": [[enc(k), enc(v)] for k, v in x.items()]}
    if isinstance(x, type):
        return {"$type": NAME_BY_TYPE.get(x, x.__name__)}
    if isinstance(x, Term):
        return {"$c": type(x).__name__, "f": {f: enc(getattr(x, f)) for f in x.FIELDS}}
    if isinstance(x, (set, frozenset)):
        return {"$set": sorted((enc(i) for i in x), key=lambda j: json.dumps(j, sort_keys=True))}
    return {"$repr": repr(x)}


def dec(x):
    if x is None or isinstance(x, (bool, str, int)):
        return x
    if isinstance(x, float):
        return x
    if isinstance(x, list):
        return [dec(i) for i in x]
    if isinstance(x, dict):
        if "$f" in x:
            return float(x["$f"])
        if "$t" in x:
            return tuple(dec(i) for i in x["$t"])
        if "$d" in x:
            return {dec(k): dec(v) for k, v in x["$d"]}
        if "$type" in x:
            return TYPE_BY_NAME[x["$type"]]
        if "$c" in x:
            cls = TERM_CLASSES[x["$c"]]
            return cls(**{k: dec(v) for k, v in x["f"].items()})
        if "$set" in x:
            return set(dec(i) for i in x["$set"])
        if "$repr" in x:
            return x["$repr"]
    raise ValueError(f"cannot decode {x!r}")


def dumps(x):
    return json.dumps(enc(x), sort_keys=True)


def case_hash(x):
    return hashlib.blake2b(dumps(x).encode(), digest_size=8).hexdigest()


def show(x, limit=400):
    """Readable rendering for evidence samples."""
    s = repr(x)
    return s if len(s) <= limit else s[: limit - 3] + "..."


# --------------------------------------------------------------------------- helpers
def walk_cond(t):
    """Yield every node of a condition tree."""
    yield t
    if isinstance(t, Op):
        yield from walk_cond(t.l)
        yield from walk_cond(t.r)


def leaves(t):
    return [n for n in walk_cond(t) if isinstance(n, Leaf)]


def depth(t):
    if isinstance(t, Op):
        return 1 + max(depth(t.l), depth(t.r))
    return 0


def simp(t):
    """Null-elimination: null is the identity of and/or/xor."""
    if isinstance(t, Op):
        l, r = simp(t.l), simp(t.r)
        if isinstance(l, Null):
            return r
        if isinstance(r, Null):
            return l
        return Op(t.op, l, r)
    return t


def cond_kinds(t):
    return {l.kind for l in leaves(t)}
