"""Generators.  Every case is decoded from one fixed-length byte tape drawn by Hypothesis
(`st.binary(min_size=L, max_size=L)`): all randomness comes from Hypothesis, the whole
case shrinks as one value (towards the all-zero tape = the simplest choices), and the
same decoders serve as the structured layer of the atheris fuzz targets.

Construction, not rejection: nothing here filters.  Nothing here imports valida.
(Measured: st.recursive-based documents cost ~9 ms per case, the tape ~1.5 ms.)
"""
import struct
import math

from hypothesis import strategies as st

from .terms import Null, Leaf, Op, Prim, Part, PathT, RuleT, SchemaT
from . import model

TAPE = 640


class R:
    """Tape reader: a deterministic source of bounded choices."""

    __slots__ = ("t", "i")

    def __init__(self, tape):
        self.t = tape
        self.i = 0

    def byte(self):
        i = self.i
        self.i = i + 1
        return self.t[i] if i < len(self.t) else 0

    def below(self, n):
        if n <= 1:
            return 0
        if n <= 256:
            return self.byte() % n
        return ((self.byte() << 8) | self.byte()) % n

    def pct(self):
        return (self.byte() * 100) >> 8

    def coin(self, p=50):
        return self.pct() < p

    def choice(self, seq):
        return seq[self.below(len(seq))]

    def between(self, lo, hi):
        return lo + self.below(hi - lo + 1)

    def int64(self):
        b = bytes(self.byte() for _ in range(8))
        return struct.unpack("<q", b)[0]

    def subset(self, seq, lo=1, hi=2):
        """Ordered sub-list of seq with between lo and hi elements."""
        seq = list(seq)
        n = min(len(seq), self.between(lo, hi))
        idx = []
        pool = list(range(len(seq)))
        for _ in range(n):
            idx.append(pool.pop(self.below(len(pool))))
        return [seq[i] for i in sorted(idx)]

    def exhausted(self):
        return self.i >= len(self.t)


def from_gen(fn, tape=TAPE):
    """Hypothesis strategy: draw a tape, decode a case with fn(R)."""
    return st.binary(min_size=tape, max_size=tape).map(lambda b: fn(R(b)))


# --------------------------------------------------------------------------- alphabets
STRS = [
    "a", "", "b", "c", "abc", "1", "0", "-3", "2.5", "1e3", "3", "-12", " 7 ",
    "true", "True", "TRUE", "false", "False", "FALSE", "none", "50%", "%d", "%(a)s", "%c", "50%c off", "%*d", "%.2f",
    "x y", "A", "<b>", "&amp", "path", "\\path", "type", "1.5", "٣x", "tRuE",
    "+3", "1_0", "1.", ".5", "0x1", "١٢", "a.b", "a/b", "a\\b", ".", "/", "ß", "İ", "ǅ", "Straße", "TRUE\n",
    "x" * 40, "long string " * 20, "x\n  \ny", "first\n\n    indented\nlast",
]
CHARS = "ab1 %<&\"'`.\\/AZ09-_é٣x"
INTS = [0, 1, -1, 2, 3, 5, 7, 10, 12, -4, 100, 2**31, -(2**31), 2**62, -(2**62), 2**63 - 1, -(2**63), 255, 256, 1000]
SMALL_INTS = [0, 1, -1, 2, 3, 5, 7, 10, 12, -4]
FLOATS = [0.0, 1.0, -1.5, 2.5, 1e-9, 3.0, 0.5, 1e300, -0.0, 1e3, 2.0**53, -2.0, 1e-300]
TYPES = [int, float, str, list, dict, bool]
KEY_STRS = ["a", "b", "c", "abc", "1", "x y", "", "path", "A", "0", "true", "a.b", "a/b", "a\\b", "-1", "ß", "1.0",
            "value", "key", "keys", "k" * 90]


def text(r):
    if r.coin(85):
        return r.choice(STRS)
    return "".join(r.choice(CHARS) for _ in range(r.between(0, 4)))


def integer(r):
    c = r.pct()
    if c < 50:
        return r.choice(SMALL_INTS)
    if c < 70:
        return r.choice(INTS)
    if c < 85:
        return r.between(-20, 20)
    return r.int64()


def floating(r):
    if r.coin(75):
        return r.choice(FLOATS)
    bits = bytes(r.byte() for _ in range(8))
    f = struct.unpack("<d", bits)[0]
    if math.isnan(f) or math.isinf(f):
        return 0.25
    return f


def scalar(r):
    c = r.pct()
    if c < 30:
        return integer(r)
    if c < 62:
        return text(r)
    if c < 77:
        return floating(r)
    if c < 89:
        return r.coin()
    return None


def key(r):
    c = r.pct()
    if c < 45:
        return r.choice(KEY_STRS)
    if c < 60:
        return text(r)
    if c < 78:
        return r.choice(SMALL_INTS)
    if c < 87:
        return r.choice([0.0, 1.0, 2.5, -1.5])
    if c < 95:
        return r.coin()
    return None


def value(r, depth=2, sc=scalar):
    c = r.pct()
    if depth <= 0 or c < (50 if depth < 2 else 35):
        return sc(r)
    n = 0 if r.pct() < 15 else r.between(1, 3)
    if r.pct() < 3:
        n = big_n(r)  # a long nested container
        depth = 1
    if c < 75:
        out = [value(r, depth - 1, sc) for _ in range(n)] if n <= 40 else fill(r, n, sc)
        if n and r.pct() < 10:
            t = twin(r, out)
            if t is not None:
                out.append(t)
        return out
    if n > 40:
        return {f"k{i}": v for i, v in enumerate(fill(r, n, sc))}
    return {key(r): value(r, depth - 1, sc) for _ in range(n)}


TWINS = {1: [True, 1.0], True: [1, 1.0], 0: [False, 0.0], False: [0, 0.0], 2: [2.0], 3: [3.0], 5: [5.0]}


def twin(r, items):
    """An equal-valued but differently-typed sibling of one of the scalars (1 / True / 1.0,
    0 / False / 0.0 ...), so that type-exactness is observable inside one container."""
    cands = [v for v in items if isinstance(v, (bool, int, float)) and not isinstance(v, str) and v in TWINS]
    if not cands:
        return None
    v = r.choice(cands)
    opts = [t for t in TWINS[v] if type(t) is not type(v)]
    return r.choice(opts) if opts else None


def twinned(r, x, p=60):
    """Copy of a document in which scalars are replaced by equal-valued, differently-typed
    twins (1 <-> True <-> 1.0, 0 <-> False <-> 0.0 ...): `==` to the original, not type-exact."""
    if isinstance(x, dict):
        return {k: twinned(r, v, p) for k, v in x.items()}
    if isinstance(x, list):
        return [twinned(r, v, p) for v in x]
    if isinstance(x, (bool, int, float)) and x in TWINS and r.pct() < p:
        opts = [t for t in TWINS[x] if type(t) is not type(x)]
        if opts:
            return r.choice(opts)
    return x


def twin_path(r, path):
    """A path equal to `path` up to the type of one primitive part (1 <-> 1.0 <-> True, '1' <-> 1)."""
    parts = list(path.parts)
    idx = [i for i, p in enumerate(parts) if isinstance(p, Prim)]
    if not idx:
        return None
    i = r.choice(idx)
    v = parts[i].v
    if isinstance(v, (bool, int, float)) and v in TWINS:
        opts = [t for t in TWINS[v] if type(t) is not type(v)]
        nv = r.choice(opts) if opts else None
    elif isinstance(v, str):
        try:
            nv = int(v)
        except ValueError:
            nv = None
    elif isinstance(v, int):
        nv = float(v) if r.coin() else str(v)
    else:
        nv = None
    if nv is None:
        return None
    parts[i] = Prim(nv)
    return PathT(parts)


BIG_SIZES = [9, 12, 17, 33, 40, 65, 100, 129, 257, 300]


def fill(r, n, sc):
    """n scalars; beyond 40 items a dozen drawn values are repeated (a long container must not use up the tape
    that the rest of the case is decoded from)."""
    if n <= 40:
        return [sc(r) for _ in range(n)]
    base = [sc(r) for _ in range(12)]
    return [base[i % 12] for i in range(n)]


def big_n(r):
    """A container size around the usual thresholds (8, 16, 32, 64, 100, 128, 256)."""
    if r.pct() < 3:
        return r.choice([1001, 1025, 1100])  # beyond 1000 / 1024 (rarely: such documents are slow to judge)
    return r.choice(BIG_SIZES[: 6 if r.coin(70) else len(BIG_SIZES)])


def cap(x, n=300):
    """`x` with every container of more than n items cut down to n (for tests that judge one document many times)."""
    if isinstance(x, list):
        if len(x) > n:
            del x[n:]
        for v in x:
            cap(v, n)
    elif isinstance(x, dict):
        if len(x) > n:
            for k in list(x)[n:]:
                del x[k]
        for v in x.values():
            cap(v, n)
    return x


def deep_chain(r, sc=scalar):
    """A document that is one long chain of single-child containers (depth 7-10)."""
    node = sc(r) if r.coin() else [sc(r), sc(r)]
    for _ in range(r.between(7, 10) if r.pct() >= 6 else r.choice([33, 34, 40, 65])):  # rarely far deeper
        node = [node] if r.coin(35) else {key(r) if r.coin(30) else r.choice(KEY_STRS): node}
    if not isinstance(node, (list, dict)) or not node:
        node = [node]
    return node


def list_doc(r, depth=3, sc=scalar):
    c0 = r.pct()
    if c0 < 4:
        # occasionally a long, flat container (size-dependent behaviour, e.g. a fast path)
        return fill(r, big_n(r), sc)
    if c0 < 6 and depth >= 3:
        d = deep_chain(r, sc)
        return d if isinstance(d, list) else [d]
    out = [value(r, depth - 1, sc) for _ in range(r.between(1, 4))]
    if r.pct() < 10:
        out.insert(r.below(len(out) + 1), r.choice(out))  # a duplicate item (the same object twice)
    if r.pct() < 15:
        t = twin(r, out)
        if t is not None:
            out.insert(r.below(len(out) + 1), t)
    return out


def map_doc(r, depth=3, sc=scalar):
    d = {}
    c0 = r.pct()
    if c0 < 4:
        n_ = big_n(r)
        strk = r.coin(70)
        for i, v in enumerate(fill(r, n_, sc)):
            d[(f"k{i}" if strk else i) if n_ > 40 else (f"k{i}" if r.coin(70) else i)] = v
        return d
    if c0 < 6 and depth >= 3:
        ch = deep_chain(r, sc)
        return ch if isinstance(ch, dict) else {r.choice(KEY_STRS): ch}
    for _ in range(r.between(1, 4)):
        d[key(r)] = value(r, depth - 1, sc)
    if r.pct() < 15:
        t = twin(r, list(d.values()))
        if t is not None:
            d[r.choice(["tw", "b", "z"])] = t
    return d


def share_subobject(r, d):
    """Put one of the document's own containers at a SECOND position as well (the very same list / dict object, as a
    YAML anchor + alias or a shared `defaults` mapping gives): still a plain, acyclic dict / list document."""
    conts = []

    def rec(n, depth):
        for k, c in (n.items() if isinstance(n, dict) else enumerate(n)):
            if isinstance(c, (list, dict)):
                conts.append((c, depth))
                if depth < 3:
                    rec(c, depth + 1)

    rec(d, 0)
    if not conts:
        return d
    shared, _ = r.choice(conts)
    # hosts: the top level or another container that is not inside `shared` (no cycles)
    inside = set()

    def mark(n):
        inside.add(id(n))
        for c in (n.values() if isinstance(n, dict) else n):
            if isinstance(c, (list, dict)):
                mark(c)

    mark(shared)
    hosts = [d] + [c for c, _ in conts if id(c) not in inside]
    host = r.choice(hosts)
    if isinstance(host, list):
        host.insert(r.below(len(host) + 1), shared)
    else:
        host[r.choice(["shared", "b", "z", 1])] = shared
    return d


def doc(r, depth=3, sc=scalar):
    """A non-empty list or mapping, heterogeneous on purpose."""
    d = map_doc(r, depth, sc) if r.coin() else list_doc(r, depth, sc)
    if depth >= 2 and r.pct() < 7:
        d = share_subobject(r, d)
    return d


# hostile scalars (C07, C13, C15): castable / uncastable strings, zeros, %-strings
CAST_STRS = ["true", "3", "True", "TRUE", "false", "False", "FALSE", "-12", " 7 ", "0",
             "none", "abc", "", "1.5", "٣x", "50%", "tRuE", "1e3", "٣", " true", "False\n", "TRUE ", "\tfalse", "falſe", "FALſE", "%c", "%c%c", "%5c!"]
HOSTILE = [0, 0.0, False, None, 1, -1, 2.5, True, 12]


def hostile_scalar(r):
    c = r.pct()
    if c < 45:
        return r.choice(CAST_STRS)
    if c < 65:
        return r.choice(HOSTILE)
    return scalar(r)


def hostile_doc(r, depth=3):
    return doc(r, depth, hostile_scalar)


def json_value(r, depth=2):
    """JSON-representable value (str keys, finite numbers)."""
    c = r.pct()
    if depth <= 0 or c < 60:
        k = r.pct()
        if k < 30:
            return r.choice(SMALL_INTS)
        if k < 55:
            return r.choice(STRS)
        if k < 70:
            return r.choice(FLOATS[:7])
        if k < 85:
            return r.coin()
        return None
    if c < 80:
        return [json_value(r, depth - 1) for _ in range(r.between(0, 3))]
    return {r.choice(["a", "b", "abc", "x y", "1"]): json_value(r, depth - 1) for _ in range(r.between(0, 3))}


# --------------------------------------------------------------------------- arguments
ORDERINGS = [
    "less_than", "greater_than", "less_than_or_equal_to", "greater_than_or_equal_to",
]
EQS = ["equal_to", "not_equal_to"]
VARPOS_KEYS = [
    "keys_contain_any_of", "keys_contain_all_of", "keys_contain_one_of",
    "keys_equal_to", "allowed_keys", "required_keys", "forbidden_keys",
]
N_OF = ["keys_contain_N_of", "keys_contain_at_least_N_of", "keys_contain_at_most_N_of"]
ONE_OF_KW = ["keys_contain_at_least_one_of", "keys_contain_at_most_one_of"]
NONZERO = [1, 2, 3, 4, 6, 12, -2, 2.5, -1, 5, 0.5, -3, 2000000, 0x110000, 0x10FFFF]  # beyond chr(): "%c" % n overflows


def number(r):
    return integer(r) if r.coin(60) else floating(r)


def small_number(r):
    return r.choice(SMALL_INTS) if r.coin(60) else r.choice(FLOATS[:7])


def types(r, lo=1, hi=3):
    return r.subset(TYPES, lo, hi)


def keys_list(r, lo=1, hi=3):
    return [key(r) for _ in range(r.between(lo, hi))]


def leaf_args(r, kind, pre, name, mode="any", jsonable=False):
    """(args, kwargs) for the DSL class-method `name`.

    mode 'any'   : arguments of every JSON-like type (C01; ill-typed arguments make the
                   comparison undefined for every item)
    mode 'typed' : well-typed, non-degenerate arguments (C07, C09, C11)
    jsonable     : arguments restricted to JSON-representable values / type objects
    """
    if jsonable:
        anyv = lambda: json_value(r, 1)
        hk = lambda: r.choice(KEY_STRS)
        sc = lambda: json_value(r, 0)
    else:
        anyv = (lambda: value(r, 1)) if mode == "any" else (lambda: scalar(r))
        hk = lambda: key(r)
        sc = lambda: scalar(r)
    wild = mode == "any" and r.pct() < 30
    is_dtype = pre == "dtype"

    def single(name_):
        if is_dtype:
            if name_ in ("in_", "not_in"):
                return anyv() if wild else types(r)
            if wild or (mode == "any" and name_ in ORDERINGS and r.coin()):
                return anyv()
            return r.choice(TYPES)
        if pre == "length" and not wild:
            if name_ in ("in_", "not_in"):
                return [r.between(0, 5) for _ in range(r.between(0, 3))]
            return r.between(0, 5) if r.coin(85) else r.choice([2.5, -1])
        if name_ in ("in_", "not_in"):
            if wild:
                return anyv()
            c = r.pct()
            if c < 9:
                return [sc() for _ in range(r.choice([24, 33, 40, 65, 129]))]  # a long membership list
            if c < 60:
                return [sc() for _ in range(r.between(0, 4))]
            if c < 80:
                return r.choice(STRS)
            return {hk(): 1 for _ in range(r.between(0, 3))}
        if name_ in ORDERINGS:
            if wild:
                return anyv()
            if r.coin(70):
                return small_number(r) if (mode != "any" or r.coin()) else number(r)
            return text(r)
        return anyv() if mode == "any" else sc()

    if name in EQS + ORDERINGS + ["in_", "not_in"]:
        return (), {"value": single(name)}
    if name in ("in_range", "not_in_range"):
        if wild:
            lo = r.between(-5, 5) if r.coin(60) else r.choice([2.5, "a", None, [1]])
            hi = r.between(-5, 12) if r.coin(60) else r.choice([2.5, "a", None])
        else:
            lo = r.between(-8, 8)
            hi = r.between(-8, 14)
        return (), {"lower": lo, "upper": hi}
    if name == "equal_to_approx":
        kw = {"value": anyv() if wild else small_number(r)}
        if r.coin():
            kw["tolerance"] = r.choice([1e-8, 0.5, 2, 0, "a", None]) if wild else r.choice([1e-8, 0.5, 2, 1e-3])
        return (), kw
    if name in ("factor_of", "has_factor"):
        if mode == "any":
            v = anyv() if r.coin() else r.choice([0, 12, 3, 0.0, "50%", "%d", 2.5, "%(a)s", "%(k)d", {"b": 1}, {}])
        else:
            v = r.choice(NONZERO)
        return (), {"value": v}
    if name in ("truthy", "falsy", "null"):
        return (), {}
    if name in ("is_instance", "keys_is_instance"):
        if wild:
            return tuple(anyv() for _ in range(r.between(1, 2))), {}
        return tuple(types(r)), {}
    if name == "keys_contain":
        return (), {"key": anyv() if wild else hk()}
    def mixed_keys():
        # real keys with an occasional element of any type among them (e.g. an unhashable one after a key that
        # is present: the count is then undefined, wherever the odd element stands)
        return [(anyv() if r.pct() < 30 else hk()) for _ in range(r.between(1, 4))]

    if name in VARPOS_KEYS:
        if wild and r.coin():
            return tuple(mixed_keys()), {}
        el = anyv if wild else hk
        return tuple(el() for _ in range(r.between(1, 3))), {}
    if name in N_OF:
        if wild:
            c = r.pct()
            return (), {"N": anyv() if c < 60 else r.between(0, 3),
                        "keys": anyv() if c < 30 else mixed_keys() if c < 70 else [hk() for _ in range(r.between(1, 3))]}
        return (), {"N": r.between(0, 3), "keys": [hk() for _ in range(r.between(1, 3))]}
    if name in ONE_OF_KW:
        if wild:
            c = r.pct()
            return (), {"keys": anyv() if c < 35 else mixed_keys() if c < 75 else [hk() for _ in range(r.between(1, 3))]}
        return (), {"keys": [hk() for _ in range(r.between(1, 3))]}
    if name == "items_contain":
        kw = {}
        for _ in range(r.between(1, 2)):
            # (incl. names that are parameter names somewhere inside the library: every keyword names an expected item)
            kw[r.choice(["a", "b", "abc", "c", "x y", "1", ""] if r.pct() >= 12 else ["trial_dict", "value", "datum", "kwargs", "args", "shared_data", "key", "keys", "N", "data"])] = None if r.pct() < 12 else anyv() if (mode == "any" or jsonable) else (sc() if r.coin() else value(r, 1))
        return (), kw
    raise AssertionError(name)


def leaf_of_shape(r, shape, mode="any", jsonable=False):
    kind, pre, name = shape
    args, kwargs = leaf_args(r, kind, pre, name, mode, jsonable)
    return Leaf(kind, pre, name, args, kwargs)


LENGTH_MEANINGFUL = EQS + ORDERINGS + ["in_", "not_in", "in_range", "not_in_range", "equal_to_approx"]
DTYPE_MEANINGFUL = EQS + ["in_", "not_in"]
_SHAPES = {}


def shapes_for(kinds, meaningful=False, names=None):
    k = (tuple(kinds), meaningful, tuple(names) if names else None)
    if k in _SHAPES:
        return _SHAPES[k]
    out = []
    for kind, pre, name in model.leaf_shapes():
        if kind not in kinds:
            continue
        if names and name not in names:
            continue
        if meaningful:
            if pre == "length" and name not in LENGTH_MEANINGFUL:
                continue
            if pre == "dtype" and name not in DTYPE_MEANINGFUL:
                continue
        out.append((kind, pre, name))
    _SHAPES[k] = out
    return out


def leaf(r, kinds=("value",), mode="any", meaningful=False, names=None, jsonable=False):
    shapes = shapes_for(kinds, meaningful, names)
    return leaf_of_shape(r, r.choice(shapes), mode, jsonable)


def tree(r, kinds=("value",), mode="any", depth=3, null_p=10, meaningful=False, names=None, jsonable=False):
    """Condition trees.  `kinds` may mix value with key, or value with index (never key
    with index: the library rejects that combination by design)."""
    c = r.pct()
    if depth <= 0 or c < 45:
        if r.pct() < null_p:
            return Null()
        return leaf(r, kinds, mode, meaningful, names, jsonable)
    if r.pct() < 4:
        # a condition combined with ITSELF: both operands are one and the same object
        sub = tree(r, kinds, mode, depth - 1, 0, meaningful, names, jsonable)
        return Op(r.choice(["xor", "and", "or", "xor"]), sub, sub, True)
    if depth >= 2 and r.pct() < 5:
        # one COMBINATION occurring at two places of the tree (in a spec: one mapping object used twice)
        sub = tree(r, kinds, mode, depth - 1, 0, meaningful, names, jsonable)
        if isinstance(sub, Op):
            other = leaf(r, kinds, mode, meaningful, names, jsonable)
            return Op(r.choice(["and", "or", "xor"]), sub, Op(r.choice(["and", "or", "xor"]), other, sub))
    return Op(
        r.choice(["and", "or", "xor"]),
        tree(r, kinds, mode, depth - 1, null_p, meaningful, names, jsonable),
        tree(r, kinds, mode, depth - 1, null_p, meaningful, names, jsonable),
    )


# --------------------------------------------------------------------------- paths
PRIMS = ["a", "b", "abc", "1", "", "x y", 0, 1, 2, -1, 5, 0.0, 1.0, 2.5, True, False]
LABELS = ["L", "lbl", "L", "lbl", "", 0]


def blind_part(r, mode="typed", cond_depth=1, labels=False, meaningful=False, jsonable=False):
    if r.pct() < 45:
        return Prim(r.choice(PRIMS))
    ct = r.choice(["map", "list", "mol"])

    def mk(kinds):
        if r.coin():
            return tree(r, kinds, mode, cond_depth, null_p=5, meaningful=meaningful, jsonable=jsonable)
        return Null()

    p = Part(
        ct,
        key=mk(("key",)) if ct != "list" else None,
        index=mk(("index",)) if ct != "map" else None,
        value=mk(("value",)),
        label=r.choice(LABELS) if labels and r.coin() else None,
    )
    if ct == "mol" and isinstance(p.key, Leaf) and isinstance(p.index, Null) and isinstance(p.value, Null) and r.pct() < 40:
        # a single key-like condition given in the generic `condition` slot (nothing else): on a
        # list such a part cannot be evaluated and matches nothing.  (Combined with other
        # conditions the library evaluates key conditions on list indices - ill-kinded use that
        # the properties do not cover and that is not generated.)
        p.generic = True
    return p


def anchored_value_cond(r, child, mode, depth, meaningful=False, jsonable=False):
    """A value condition that the given child satisfies in ~60% of draws (so that the
    walk continues), combined with random trees."""
    if r.pct() < 40:
        return tree(r, ("value",), mode, depth, null_p=5, meaningful=meaningful, jsonable=jsonable)
    c = r.pct()
    if jsonable and not _jsonable(child):
        c = c % 55 if isinstance(child, (str, list, dict)) else c % 35
    if c < 35 and type(child) in TYPES:
        anchor = Leaf("value", "dtype", "equal_to", kwargs={"value": type(child)})
    elif c < 55 and isinstance(child, (str, list, dict)):
        anchor = Leaf("value", "length", r.choice(["equal_to", "less_than_or_equal_to"]), kwargs={"value": len(child)})
    elif c < 70:
        anchor = Leaf("value", None, "equal_to", kwargs={"value": child})
    elif c < 85:
        anchor = Leaf("value", None, "is_instance", args=(type(child),) if type(child) in TYPES else (dict, list))
    elif c < 93 or jsonable:
        anchor = Leaf("value", None, "truthy" if child else "falsy")
    else:
        # a long membership list (the child - often a container - is not among its members)
        anchor = Leaf("value", None, "not_in", kwargs={"value": [r.between(-40, 400) if r.coin(70) else text(r) for _ in range(r.choice([33, 40, 65, 129]))]})
    k = r.pct()
    if k < 50 or depth <= 0:
        return anchor
    other = tree(r, ("value",), mode, depth - 1, null_p=5, meaningful=meaningful, jsonable=jsonable)
    if k < 75:
        return Op("or", anchor, other) if r.coin() else Op("or", other, anchor)
    return Op(r.choice(["and", "xor"]), anchor, other)


def _jsonable(x):
    if x is None or isinstance(x, (bool, int, str)):
        return True
    if isinstance(x, float):
        return x == x and x not in (float("inf"), float("-inf"))
    if isinstance(x, list):
        return all(_jsonable(i) for i in x)
    if isinstance(x, dict):
        return all(isinstance(k, str) and _jsonable(v) for k, v in x.items())
    return False


def guided_path(r, doc_, max_len=4, miss=18, mode="typed", labels=False, prim_only=False,
                want_str=False, min_len=0, cond_depth=2, end_str=False, meaningful=False, jsonable=False):
    """A path drawn by walking the document, so that selections are non-empty most of
    the time; with probability `miss` % per part a blind part is injected."""
    parts = []
    if r.pct() < 4:
        max_len = max(max_len, 10)  # occasionally as long as the deepest document
    n = r.between(min_len, max_len)
    for part_i in range(n):
        frontier = [c for c, _ in model.ref_select(parts, doc_)] if parts else [doc_]
        conts = [x for x in frontier if isinstance(x, (dict, list)) and x]
        if not conts and r.pct() < 75:
            break
        if not conts or r.pct() < miss:
            parts.append(Prim(r.choice(PRIMS)) if prim_only else blind_part(r, mode, labels=labels, meaningful=meaningful, jsonable=jsonable))
            continue
        node = r.choice(conts)
        items = model.items_of(node)
        ks = [k for k, _ in items]
        ks_pick = ks
        if part_i < n - 1:
            deeper = [k for k, v in items if isinstance(v, (list, dict)) and v]
            if deeper and r.pct() < 80:
                ks_pick = deeper
        if want_str:
            pref = [k for k, v in items if isinstance(v, str) or (isinstance(v, (list, dict)) and v)]
            if pref and r.pct() < 85:
                ks_pick = pref
        if end_str and part_i == n - 1:
            pref = [k for k, v in items if isinstance(v, str)]
            if pref and r.pct() < 90:
                ks_pick = pref
        k = r.choice(ks_pick)
        is_map = isinstance(node, dict)
        c = r.pct()
        lab = r.choice(LABELS) if labels and r.pct() < 40 else None
        primable = isinstance(k, (str, int, float, bool))
        if prim_only or (c < 34 and primable):
            parts.append(Prim(k) if primable else Prim(r.choice(PRIMS)))
        elif c < 52:
            parts.append(Part("map" if is_map else "list", label=lab))
        elif c < 62:
            parts.append(Part("mol", label=lab))
        elif c < 74:
            if is_map:
                ct = r.choice(["map", "mol"])
                cnd = r.choice(["in_", "equal_to", "not_in"])
                if cnd == "equal_to":
                    kc = Leaf("key", None, "equal_to", kwargs={"value": k})
                    if ct == "mol" and isinstance(k, int) and r.coin():
                        # the same value as index condition: equivalent to the primitive part k
                        parts.append(Part(ct, key=kc, index=Leaf("index", None, "equal_to", kwargs={"value": k}), label=lab))
                        continue
                else:
                    kc = Leaf("key", None, cnd, kwargs={"value": r.subset(ks)})
                if ct == "mol" and r.pct() < 15 and not (jsonable and not _jsonable(kc.kwargs["value"])):
                    parts.append(Part(ct, key=kc, label=lab, generic=True))  # key condition in the generic slot
                    continue
                if jsonable and not _jsonable(kc.kwargs["value"]):
                    kc = Leaf("key", "dtype", "equal_to", kwargs={"value": type(k)}) if type(k) in TYPES else Null()
                parts.append(Part(ct, key=kc, label=lab))
            else:
                ct = r.choice(["list", "mol"])
                nm = r.choice(["less_than", "greater_than_or_equal_to", "equal_to", "in_"])
                if nm == "in_":
                    ic = Leaf("index", None, "in_", kwargs={"value": r.subset(ks)})
                else:
                    ic = Leaf("index", None, nm, kwargs={"value": r.between(0, len(node))})
                parts.append(Part(ct, index=ic, label=lab))
        elif c < 86:
            ct = r.choice(["map" if is_map else "list", "mol"])
            vc = anchored_value_cond(r, node[k], mode, cond_depth, meaningful, jsonable)
            parts.append(Part(ct, value=vc, label=lab))
        else:
            ct = r.choice(["map" if is_map else "list", "mol"])
            kd = 1 if cond_depth < 3 else 2
            vc = anchored_value_cond(r, node[k], mode, kd, meaningful, jsonable)
            mj = dict(meaningful=meaningful, jsonable=jsonable)
            if ct == "mol":
                parts.append(Part(ct, key=tree(r, ("key",), mode, kd, null_p=30, **mj),
                                  index=tree(r, ("index",), mode, kd, null_p=30, **mj), value=vc, label=lab))
            elif is_map:
                parts.append(Part(ct, key=tree(r, ("key",), mode, kd, null_p=20, **mj), value=vc, label=lab))
            else:
                parts.append(Part(ct, index=tree(r, ("index",), mode, kd, null_p=20, **mj), value=vc, label=lab))
    return PathT(parts)


# --------------------------------------------------------------------------- rules
DOC_STRS = ["A doc.", "uses `code` here", "<b>bold</b> & more", "  padded \n", "x < y", "", "tick ` alone", "two lines\n  \nwith a blank, indented one"]


def doc_block(r):
    if r.coin(40):
        return None
    return {
        "description": [r.choice(DOC_STRS).strip() for _ in range(r.between(0, 2))],
        "examples": [r.choice(DOC_STRS).strip() for _ in range(r.between(0, 2))],
    }


def rule_for(r, doc_, mode="typed", cast_p=0, max_len=4, cond_depth=2, with_doc=False,
             want_str=False, jsonable=False, meaningful=False, prim_only=False, labels=False):
    cast = None
    if cast_p and r.pct() < cast_p:
        cast = r.choice(["bool", "int"])
    p = guided_path(r, doc_, max_len=max_len, mode=mode, want_str=bool(cast) or want_str, prim_only=prim_only,
                    min_len=1 if cast else 0, end_str=bool(cast), miss=8 if cast else 18,
                    meaningful=meaningful, jsonable=jsonable, labels=labels)
    if cast and r.pct() < 80:
        # cast-directed: declare the cast that some selected string can take
        strs_ = [v for v, _ in model.ref_select(p.parts, doc_) if isinstance(v, str)]
        kinds_ = [k for k in ("bool", "int") if any(model.cast_value(k, v)[0] for v in strs_)]
        if kinds_:
            cast = r.choice(kinds_)
    c = tree(r, ("value",), mode, cond_depth, meaningful=meaningful, jsonable=jsonable)
    d = doc_block(r) if with_doc else None
    return RuleT(p, c, cast, d)


def schema_for(r, doc_, min_rules=0, max_rules=4, **kw):
    return SchemaT([rule_for(r, doc_, **kw) for _ in range(r.between(min_rules, max_rules))])
