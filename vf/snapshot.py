"""Snapshots: type-exact canonical forms, object-graph fingerprints, attribute-write tracer."""
import sys
import inspect


def exact(x):
    """Type-exact canonical form of a JSON-like value (1, 1.0 and True all differ;
    mappings compared order-insensitively; list vs tuple differ)."""
    if x is None:
        return ("none",)
    t = type(x)
    if t is bool:
        return ("bool", x)
    if t is int:
        return ("int", x)
    if t is float:
        return ("float", repr(x))
    if t is str:
        return ("str", x)
    if t is list:
        return ("list", tuple(exact(i) for i in x))
    if t is tuple:
        return ("tuple", tuple(exact(i) for i in x))
    if t is dict:
        return ("dict", tuple(sorted(((exact(k), exact(v)) for k, v in x.items()), key=repr)))
    if isinstance(x, type):
        return ("type", x.__name__)
    return ("obj", t.__name__, repr(x))


def exact_ordered(x):
    """As exact() but mapping order is significant (document order)."""
    if type(x) is dict:
        return ("dict", tuple((exact_ordered(k), exact_ordered(v)) for k, v in x.items()))
    if type(x) in (list, tuple):
        return (type(x).__name__, tuple(exact_ordered(i) for i in x))
    return exact(x)


def containers(x, acc=None):
    """ids of all list/dict objects reachable from a JSON-like value."""
    if acc is None:
        acc = {}
    if isinstance(x, (list, dict)):
        if id(x) in acc:
            return acc
        acc[id(x)] = x
        for v in x.values() if isinstance(x, dict) else x:
            containers(v, acc)
    return acc


def aliases(a, b):
    """True if some non-empty container of `a` is (is) a container of `b`."""
    ca, cb = containers(a), containers(b)
    return any(i in cb for i in ca)


def _is_valida_obj(o):
    return type(o).__module__.startswith("valida") and hasattr(o, "__dict__")


def fingerprint(*roots):
    """Structure of the object graph reachable from valida objects / containers:
    {id: (class name, ((attr, child-id | primitive repr), ...))}.  Two fingerprints taken
    before/after a call are equal iff no attribute was rebound and no reachable container
    was mutated (objects are kept alive by the caller, so ids are stable)."""
    out = {}

    def prim(o):
        return not (
            isinstance(o, (list, tuple, dict, set)) or _is_valida_obj(o)
        )

    stack = []

    def ref(o):
        if prim(o):
            if isinstance(o, type) or callable(o):
                return ("p", getattr(o, "__qualname__", repr(o)))
            return ("p", type(o).__name__, repr(o))
        if id(o) not in out:
            stack.append(o)
        return ("id", id(o))

    def visit(o):
        # (iterative: a combination of a hundred operands is an object graph several hundred levels deep)
        if isinstance(o, dict):
            out[id(o)] = ("dict", tuple((ref(k), ref(v)) for k, v in o.items()))
        elif isinstance(o, (list, tuple)):
            out[id(o)] = (type(o).__name__, tuple(ref(v) for v in o))
        elif isinstance(o, set):
            out[id(o)] = ("set", tuple(sorted(repr(ref(v)) for v in o)))
        else:
            out[id(o)] = (
                type(o).__name__,
                tuple((k, ref(v)) for k, v in sorted(vars(o).items())),
            )

    for r in roots:
        ref(r)
    while stack:
        o = stack.pop()
        if id(o) not in out:
            out[id(o)] = None
            visit(o)
    return out


def fp_diff(a, b):
    """Human-readable first difference between two fingerprints."""
    for k in a:
        if k not in b:
            return f"object {a[k][0]} no longer reachable"
        if a[k] != b[k]:
            cls = a[k][0]
            for x, y in zip(a[k][1], b[k][1]):
                if x != y:
                    return f"{cls}: {x!r} -> {y!r}"
            return f"{cls}: size changed"
    for k in b:
        if k not in a:
            return f"new object {b[k][0]} reachable"
    return None


# --------------------------------------------------------------------------- tracer
class _TraceState:
    active = False
    frozen = set()
    writes = []
    installed = False


def install_tracer():
    """Wrap __setattr__ of every valida class so that, while a Trace is active, writes
    to objects in the frozen set are recorded.  Harness-side; valida is not edited."""
    if _TraceState.installed:
        return
    import valida.conditions, valida.datapath, valida.rules, valida.schema, valida.data

    seen = []
    for mod in (
        valida.conditions, valida.datapath, valida.rules, valida.schema, valida.data,
    ):
        for n, c in vars(mod).items():
            if (
                inspect.isclass(c)
                and c.__module__ == mod.__name__
                and not issubclass(c, BaseException)
                and not hasattr(c, "_member_map_")
                and c not in seen
            ):
                seen.append(c)
    for c in seen:
        if "__setattr__" in vars(c) or c.__setattr__ is object.__setattr__:
            _wrap(c)
    _TraceState.installed = True


def _wrap(cls):
    orig = cls.__setattr__

    def traced(self, name, value, _orig=orig):
        if _TraceState.active and id(self) in _TraceState.frozen:
            f = sys._getframe(1)
            _TraceState.writes.append(
                (type(self).__name__, name, f.f_code.co_qualname if hasattr(f.f_code, "co_qualname") else f.f_code.co_name)
            )
        _orig(self, name, value)

    cls.__setattr__ = traced


def _reach(o, acc, keep):
    if id(o) in acc:
        return
    if isinstance(o, (list, tuple, set)):
        acc.add(id(o))
        keep.append(o)
        for x in o:
            _reach(x, acc, keep)
    elif isinstance(o, dict):
        acc.add(id(o))
        keep.append(o)
        for x in o.values():
            _reach(x, acc, keep)
    elif _is_valida_obj(o):
        acc.add(id(o))
        keep.append(o)
        for x in vars(o).values():
            _reach(x, acc, keep)


class Trace:
    """with Trace(obj, ...) as writes: call()  -> writes lists (class, attr, function)
    for every attribute write to a pre-existing reachable valida object."""

    def __init__(self, *objs):
        self.objs = objs

    def __enter__(self):
        install_tracer()
        _TraceState.frozen = set()
        _TraceState.writes = []
        self._keep = []
        for o in self.objs:
            _reach(o, _TraceState.frozen, self._keep)
        _TraceState.active = True
        return _TraceState.writes

    def __exit__(self, *a):
        _TraceState.active = False
        return False
