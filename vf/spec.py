"""Spellers: term -> spec structures (the accepted spellings are drawn from a tape reader;
with sp=None the canonical spelling is produced).  Imports nothing from valida."""
from .terms import Null, Leaf, Op, Prim, Part, PathT, RuleT, SchemaT
from . import gen as G

TYPE_NAMES = {int: ["int"], float: ["float"], str: ["str"], list: ["list"], dict: ["dict", "map"], bool: ["bool"]}
try:
    import pathlib

    TYPE_NAMES[pathlib.Path] = ["path"]
except Exception:  # pragma: no cover
    pass
ALIAS = {
    "equal_to": ["equal_to", "eq"], "less_than": ["less_than", "lt"], "greater_than": ["greater_than", "gt"],
    "less_than_or_equal_to": ["less_than_or_equal_to", "lte"],
    "greater_than_or_equal_to": ["greater_than_or_equal_to", "gte"], "in_": ["in_", "in"],
}
PRE = {"length": ["length", "len"], "dtype": ["dtype", "type"]}
SIG = {
    "none": ["truthy", "falsy", "null"],
    "single": ["equal_to", "not_equal_to", "less_than", "greater_than", "less_than_or_equal_to",
               "greater_than_or_equal_to", "in_", "not_in", "factor_of", "has_factor", "keys_contain",
               "keys_contain_at_least_one_of", "keys_contain_at_most_one_of"],
    "multi": ["in_range", "not_in_range", "equal_to_approx", "keys_contain_N_of",
              "keys_contain_at_least_N_of", "keys_contain_at_most_N_of"],
    "varpos": ["is_instance", "keys_contain_any_of", "keys_contain_all_of", "keys_contain_one_of",
               "keys_equal_to", "keys_is_instance", "allowed_keys", "required_keys", "forbidden_keys"],
    "varkw": ["items_contain"],
}
PARAMS = {
    "in_range": ["lower", "upper"], "not_in_range": ["lower", "upper"], "equal_to_approx": ["value", "tolerance"],
    "keys_contain_N_of": ["N", "keys"], "keys_contain_at_least_N_of": ["N", "keys"],
    "keys_contain_at_most_N_of": ["N", "keys"],
}
SIG_OF = {n: k for k, v in SIG.items() for n in v}


class Spelling:
    """Records how far a spelling departs from the canonical one."""

    def __init__(self, r=None):
        self.r = r
        self.dims = set()
        self.force_names = False
        self.bias = {}  # dim -> probability (percent) overriding the default of a coin
        # one in five spellings writes structurally equal sub-specs (parts of one path, operands of one combination) as
        # ONE object used twice - what a variable reused in Python, or a YAML anchor and its alias, gives
        self.share = r is not None and r.pct() < 20
        self.memo = {}

    def rcase(self, s):
        r = self.r
        if r is None:
            return s
        c = r.pct()
        if c < 50:
            return s
        self.dims.add("case")
        if c < 70:
            return s.upper()
        if c < 80:
            return s.capitalize()
        return "".join(ch.upper() if r.coin() else ch for ch in s)

    def pick(self, options, dim):
        if self.r is None:
            return options[0]
        o = self.r.choice(options)
        if o != options[0]:
            self.dims.add(dim)
        return o

    def coin(self, dim, p=50):
        if self.r is None:
            return False
        if self.r.pct() < self.bias.get(dim, p):
            self.dims.add(dim)
            return True
        return False

    def tname(self, t):
        if not isinstance(t, type) or t not in TYPE_NAMES:
            return t
        if self.r is None or (self.r.pct() < 35 and not self.force_names):
            return t if not self.force_names else TYPE_NAMES[t][0]
        self.dims.add("type-name")
        return self.rcase(self.r.choice(TYPE_NAMES[t]))


import re as _re

_ESC = _re.compile(r"\\(path)", _re.IGNORECASE)
_PATH = _re.compile(r"(path)", _re.IGNORECASE)


def needs_escape(d):
    """True if ConditionLike.from_spec would not read this literal mapping back as itself."""
    ks = [k for k in d if isinstance(k, str)]
    if any(_ESC.search(k) for k in ks):
        return True
    return len(d) == 1 and bool(ks) and ks[0].lower().split(".")[0] == "path"


def escape_literal(d):
    """The documented escape: a backslash before 'path' (any letter case) in the keys."""
    return {(_PATH.sub(r"\\\1", k) if isinstance(k, str) else k): v for k, v in d.items()}


def arg_spec(a, sp, depth=0):
    """Spec form of one argument value: data paths become {path...: parts}; literal
    mappings that look like path specs are written with the escaped key '\\path' (the
    parser scans the argument itself and, for a list / mapping argument, its direct
    children)."""
    if isinstance(a, PathT):
        return path_spec(a, sp)
    if isinstance(a, dict):
        if needs_escape(a):
            return escape_literal(a)
        if depth == 0:
            return {k: arg_spec(v, sp, 1) for k, v in a.items()}
        return a
    if isinstance(a, (list, tuple)) and depth == 0:
        return type(a)(arg_spec(x, sp, 1) for x in a)
    return a


def leaf_spec(l, sp=None):
    sp = sp or Spelling()
    toks = [sp.rcase(l.kind)]
    if l.pre:
        toks.append(sp.rcase(sp.pick(PRE[l.pre], "alias")))
    toks.append(sp.rcase(sp.pick(ALIAS.get(l.name, [l.name]), "alias")))
    key = ".".join(toks)
    sg = SIG_OF[l.name]
    typed = l.pre == "dtype" or l.name in ("is_instance", "keys_is_instance")
    conv = (lambda v: sp.tname(v)) if typed else (lambda v: v)
    if sg == "none":
        val = None
    elif sg == "single":
        v = (list(l.kwargs.values()) + list(l.args))[0]
        canon = None
        if typed:
            if sp.share and isinstance(v, list) and v and all(isinstance(x, type) and x in TYPE_NAMES for x in v):
                canon = ("list-arg", repr([TYPE_NAMES[x][0] for x in v]))
            v = [conv(x) for x in v] if isinstance(v, list) else conv(v)
        val = arg_spec(v, sp)
        if sp.share and isinstance(val, list) and val:
            # a list of names written once and used as the argument of two terms (a YAML anchor and its alias): the
            # type names of a dtype term and the equal literal strings of a plain term are then ONE list object
            if canon is not None and canon in sp.memo:
                val = sp.memo[canon]
                sp.dims.add("shared-arg-list")
            elif all(isinstance(x, str) for x in val):
                key_ = ("list-arg", repr(val))
                if key_ in sp.memo:
                    val = sp.memo[key_]
                    sp.dims.add("shared-arg-list")
                else:
                    sp.memo[key_] = val
    elif sg == "multi":
        names = PARAMS[l.name]
        kw = {k: arg_spec(v, sp, 1) for k, v in l.kwargs.items()}
        if sp.coin("arg-shape"):
            val = [kw[n] for n in names if n in kw]
            if not sp.force_names and sp.coin("arg-tuple", 30):
                val = tuple(val)  # a Python tuple is accepted wherever a positional list is
        elif sp.coin("kw-order"):
            val = {k: kw[k] for k in reversed(list(kw))}  # keyword mappings carry no order
        else:
            val = kw
    elif sg == "varpos":
        val = [arg_spec(conv(x), sp, 1) for x in l.args]
    elif sg == "varkw":
        val = {k: arg_spec(v, sp, 1) for k, v in l.kwargs.items()}
    return {key: val}


def cond_spec(t, sp=None, null_as=None):
    """Condition tree -> spec.  and/or/xor lists use the lower-case operator keys the
    library documents; a left spine of the same operator may be flattened into one list
    (the parser folds lists from the left)."""
    sp = sp or Spelling()
    if isinstance(t, Null):
        if sp.r is None:
            return {} if null_as is None else null_as
        return sp.r.choice([{}, None])
    if isinstance(t, Leaf):
        return leaf_spec(t, sp)
    if sp.share:
        # a combination that occurs twice in the tree is written once and used twice (one mapping object)
        from .terms import dumps
        key_ = ("cond", dumps(t))
        if key_ in sp.memo:
            sp.dims.add("shared-sub-spec")
            return sp.memo[key_]
        out_ = _cond_spec_op(t, sp)
        sp.memo[key_] = out_
        return out_
    return _cond_spec_op(t, sp)


def _cond_spec_op(t, sp):
    # flatten same-op left spine sometimes
    items = [t.r]
    cur = t.l
    if sp.r is not None:
        while isinstance(cur, Op) and cur.op == t.op and sp.r.coin():
            sp.dims.add("flattened-list")
            items.append(cur.r)
            cur = cur.l
    items.append(cur)
    items.reverse()
    if sp.share:
        from .terms import dumps
        specs = []
        local = {}
        for i in items:
            k = dumps(i)
            if k not in local or not isinstance(local[k], dict):
                local[k] = cond_spec(i, sp)
            else:
                sp.dims.add("shared-sub-spec")
            specs.append(local[k])
        return {t.op: specs}
    return {t.op: [cond_spec(i, sp) for i in items]}


PART_TYPES = {"map": "map_value", "list": "list_value", "mol": "map_or_list_value"}


def part_spec(p, sp=None):
    """Path part -> spec.  A part condition that reduces to null is spelled by omission
    (an explicit `key: {}` is rejected by the parser; the API accepts key=NullCondition();
    the two are not claimed equivalent)."""
    from .terms import simp

    sp = sp or Spelling()
    if isinstance(p, Prim):
        return p.v
    out = {}
    if not (p.ctype == "mol" and sp.coin("default-type")):
        out["type"] = PART_TYPES[p.ctype]

    def put(name, cond):
        c = simp(cond)
        if isinstance(c, Null):
            return
        # dotted shorthand for a single leaf
        if isinstance(c, Leaf) and sp.coin("shorthand"):
            ls = leaf_spec(c, sp)
            k, v = next(iter(ls.items()))
            # shorthand keys are recognised by their lower-case prefix
            pref, _, rest = k.partition(".")
            out[pref.lower() + "." + rest] = v
            return
        # an and-combination of leaves (left spine): several dotted shorthands side by side are and-ed in the
        # order they are written
        spine = []
        t = c
        while isinstance(t, Op) and t.op == "and" and isinstance(t.r, Leaf) and not t.same:
            spine.append(t.r)
            t = t.l
        # (only when this is the part's sole condition slot: with a second slot the parser's association order,
        #  ((other & c1) & c2), has no API-built counterpart that the statements name)
        sole = sum(not isinstance(simp(x), Null) for x in (p.key, p.index, p.value)) == 1
        # (text routes - force_names - may reorder mapping keys: two operands commute, three do not)
        if sole and spine and isinstance(t, Leaf) and (len(spine) == 1 or not sp.force_names) and sp.coin("multi-shorthand", 60):
            spine.append(t)
            spine.reverse()
            items = []
            for lf in spine:
                k, v = next(iter(leaf_spec(lf, sp).items()))
                pref, _, rest = k.partition(".")
                items.append((pref.lower() + "." + rest, v))
            if len({k for k, _ in items}) == len(items) and not any(k in out for k, _ in items):
                out.update(items)
                return
        out[name] = cond_spec(c, sp)

    if p.ctype == "mol" and getattr(p, "generic", False) and not isinstance(simp(p.key), Null):
        out["condition"] = cond_spec(simp(p.key), sp)
    elif p.ctype in ("map", "mol"):
        put("key", p.key)
    if p.ctype in ("list", "mol"):
        put("index", p.index)
    put("value", p.value)
    if p.label is not None:
        out["label"] = p.label
    return out


DATUM_ALIASES = {"length": ["length", "len"], "dtype": ["dtype", "type"], "map_keys": ["map_keys"], "map_values": ["map_values"]}


def path_key(path, sp=None):
    sp = sp or Spelling()
    toks = [sp.rcase("path")]
    mods = []
    if path.datum:
        mods.append(sp.rcase(sp.pick(DATUM_ALIASES[path.datum], "alias")))
    if path.multi:
        mods.append(sp.rcase(path.multi))
    if path.order == "md":
        mods.reverse()
    return ".".join(toks + mods)


def part_specs(parts, sp=None):
    """The part specs of one path; under sp.share equal mapping parts are one object used twice."""
    sp = sp or Spelling()
    if not sp.share:
        return [part_spec(p, sp) for p in parts]
    from .terms import dumps
    local, out = {}, []
    for p in parts:
        k = dumps(p)
        if k in local and isinstance(local[k], dict):
            sp.dims.add("shared-sub-spec")
        else:
            local[k] = part_spec(p, sp)
        out.append(local[k])
    return out


def path_spec(path, sp=None):
    sp = sp or Spelling()
    return {path_key(path, sp): part_specs(path.parts, sp)}


def cast_spec(cast):
    return None if cast is None else {"str": cast}


def doc_spec(doc, sp=None):
    """doc normal form -> one of the accepted shapes."""
    sp = sp or Spelling()
    if doc is None:
        return None
    desc, ex = list(doc["description"]), list(doc["examples"])
    if sp.r is None:
        return {"description": desc, "examples": ex}
    pad = lambda s: (s + "\n") if sp.r.coin(30) else s
    desc = [pad(s) for s in desc]
    ex = [pad(s) for s in ex]
    if not ex and desc:
        c = sp.r.pct()
        if c < 25 and len(desc) == 1 and desc[0].strip():
            sp.dims.add("doc-str")
            return desc[0]
        if c < 50:
            sp.dims.add("doc-list")
            return desc
    out = {}
    if len(desc) == 1 and sp.r.coin():
        sp.dims.add("doc-desc-str")
        out["description"] = desc[0]
    elif desc or sp.r.coin():
        out["description"] = desc
    if ex or sp.r.coin():
        out["examples"] = ex
    if not out:
        out["description"] = []
    if "description" not in out:
        sp.dims.add("doc-no-description")
    return out


def rule_spec(rule, sp=None):
    sp = sp or Spelling()
    out = {"path": part_specs(rule.path.parts, sp), "condition": cond_spec(rule.cond, sp)}
    if rule.cast is not None:
        out["cast"] = cast_spec(rule.cast)
    d = doc_spec(rule.doc, sp)
    if d is not None:
        out["doc"] = d
    return out


def schema_spec(schema, sp=None):
    sp = sp or Spelling()
    return {"rules": [rule_spec(r, sp) for r in schema.rules]}


# --------------------------------------------------------------------------- recycled spec objects
_EQ_KEYS = ("equal_to", "eq", "equal", "not_equal_to", "neq", "less_than", "lt", "greater_than", "gt", "lte", "gte")


def variant(spec):
    """-> (copy of `spec` with the same skeleton but other content, changed?)

    Part lists under path-like keys become ['zz', 0]; scalar int / str arguments of comparison keys change value.
    The variant of a well-formed spec is well-formed (it is parsed only to put the library through a first parse)."""
    changed = [False]

    def rec(x, key=None):
        if isinstance(x, dict):
            return {k: rec(v, k) for k, v in x.items()}
        if isinstance(x, (list, tuple)):
            if isinstance(key, str) and key.lower().split(".")[0].strip() == "path" and x:
                changed[0] = True
                return type(x)(["zz", 0])
            return type(x)(rec(v) for v in x)
        if isinstance(key, str) and key.lower().split(".")[-1] in _EQ_KEYS and "dtype" not in key.lower() and ".type" not in key.lower():
            if isinstance(x, bool) or x is None:
                return x
            if isinstance(x, int):
                changed[0] = True
                return x + 1
            if isinstance(x, str):
                changed[0] = True
                return x + "z"
        return x

    return rec(spec), changed[0]


def morph(a, b):
    """Give container `a` the content of `b` IN PLACE, keeping the container objects of `a` wherever both hold a
    container of the same type at the same key / index (as a caller editing its own spec structure does)."""
    import copy

    if type(a) is dict and type(b) is dict:
        old = dict(a)
        a.clear()
        for k, v in b.items():
            a[k] = morph(old[k], v) if k in old else copy.deepcopy(v)
        return a
    if type(a) is list and type(b) is list:
        old = list(a)
        a[:] = [morph(old[i], v) if i < len(old) else copy.deepcopy(v) for i, v in enumerate(b)]
        return a
    return copy.deepcopy(b)


def recycled(spec, parse_fn):
    """A spec object holding exactly `spec`'s content that the library has already parsed once while it held OTHER
    content (same container objects, edited in place in between) - or None when no variant exists.  What a parse
    returns is a function of what the spec holds when it is parsed."""
    import copy
    from .snapshot import exact

    if not isinstance(spec, (dict, list)):
        return None
    w, changed = variant(spec)
    if not changed:
        return None
    try:
        parse_fn(w)
    except Exception:
        pass
    obj = morph(w, spec)
    if obj is not w or exact(obj) != exact(spec):
        return None
    return obj
