"""C09 - condition specs mean exactly what the equivalent Python DSL expression means."""
import copy
import warnings

from ..runner import TestSpec, Outcome
from ..terms import Null, Leaf, Op, PathT, Prim, Part, show, depth, leaves
from .. import model, build, gen as G, spec as SP
from ..snapshot import exact

ID = "C09"
RULE = (
    "exhaustive over the spec-expressible leaf shapes (149 minus the dtype-pre-processed callables other than "
    "equal_to/not_equal_to/in_/not_in, whose argument the parser always converts to a type) x generated well-typed "
    "arguments x every argument shape the signature admits (None / scalar / list / mapping) x a drawn spelling "
    "(letter case of every token, aliases type|dtype len|length in|in_ eq lt gt lte gte, type names incl. map/dict in "
    "any case vs type objects, positional list vs keyword mapping) ; 35% of cases nest the leaf in and/or/xor lists "
    "(left spines flattened at random); second test: data-path arguments (sole / list item / mapping value, with "
    "modifiers) and escaped '\\\\path' literals. Oracle: from_spec(spec) == DSL object in both directions and equal "
    "filter results (also vs the reference model) on 2 probe documents. Non-trivial: the spelling differs from the "
    "canonical one in >=2 dimensions, or the term is a nested combination, or has a path / escaped-literal argument."
)
ASSUMPTIONS = [
    "and/or/xor keys are lower-case (as the library documents)",
    "a literal mapping whose single key spells 'path' in another letter case has no escaped spelling and is not generated",
]


def spec_expressible(shape):
    kind, pre, name = shape
    return not (pre == "dtype" and name not in G.DTYPE_MEANINGFUL)


SHAPES = [s for s in model.leaf_shapes() if spec_expressible(s)]


def probes_for(r, kinds):
    if "key" in kinds:
        return [G.map_doc(r, 2) for _ in range(2)]
    if "index" in kinds:
        return [G.list_doc(r, 2) for _ in range(2)]
    return [G.doc(r, 2) for _ in range(2)]


def gen_case(r, shape):
    leaf = G.leaf_of_shape(r, shape, "typed")
    if SP.SIG_OF[shape[2]] == "single" and shape[1] is None and r.pct() < 8:
        # a LITERAL mapping argument whose only key is spelled like the callable's own parameter
        pname = next(iter(leaf.kwargs))
        leaf = leaf.replace(kwargs={pname: {r.choice([pname, "value", "key", "keys"]): G.scalar(r)}})
    t = leaf
    kinds = {shape[0]}
    if r.pct() < 35:
        other_kinds = ("value", "key") if shape[0] == "key" else ("value", "index") if shape[0] == "index" else (("value",) if r.coin() else r.choice([("value", "key"), ("value", "index")]))
        for _ in range(r.between(1, 3)):
            o = G.tree(r, other_kinds, "typed", depth=r.between(0, 2), null_p=10, meaningful=True)
            t = Op(r.choice(["and", "or", "xor"]), t, o) if r.coin() else Op(r.choice(["and", "or", "xor"]), o, t)
        kinds |= set(other_kinds)
    sp = SP.Spelling(r)
    if r.pct() < 6 and (shape[0], "dtype", "in_") in SHAPES and (shape[0], "dtype", "not_in") in SHAPES:
        # a dtype term over a list of types next to a plain term over the list of the same type NAMES (as strings): with
        # the list written once and used twice the two terms share one argument object (seeded C09-o)
        k = shape[0]
        ts = r.subset([int, float, str, list, dict, bool], 1, 3)
        typed = Leaf(k, "dtype", r.choice(["in_", "not_in"]), (), {"value": list(ts)})
        plain = Leaf(k, None, r.choice(["in_", "not_in", "equal_to", "not_equal_to"]), (), {"value": [SP.TYPE_NAMES[x][0] for x in ts]})
        pair = Op(r.choice(["and", "or", "xor"]), *((typed, plain) if r.coin() else (plain, typed)))
        t = pair if r.coin() else Op(r.choice(["and", "or", "xor"]), pair, leaf)
        sp.share = True
    spec = SP.cond_spec(t, sp)
    return t, spec, sorted(sp.dims), probes_for(r, kinds)


def compare(out, t, spec, probes, tag, use_model=True):
    ns = build.ns()
    try:
        dsl = build.build_cond(t)
    except Exception as e:
        out.exc("build-dsl", e)
        return
    # a malformed relative of the spec is parsed (and rejected) first: rejections must leave
    # nothing behind that changes how the well-formed spec is read afterwards
    if isinstance(spec, dict) and len(spec) == 1:
        k0 = next(iter(spec))
        if isinstance(k0, str) and k0.count(".") == 1 and (len(k0) + len(repr(spec[k0]))) % 4 == 0:
            datum_tok, call_tok = k0.split(".")
            for bad in ({f"{datum_tok}.{call_tok}.gt": 1}, {f"{datum_tok}.{call_tok}.{call_tok}": spec[k0]}):
                try:
                    with warnings.catch_warnings():
                        warnings.simplefilter("ignore")
                        ns.c.ConditionLike.from_spec(copy.deepcopy(bad))
                except Exception:
                    pass
            out.label("after-a-rejected-relative")
    try:
        with warnings.catch_warnings():
            warnings.simplefilter("ignore")
            # in half of the cases the spec object parsed is one the library has parsed before, when it held other
            # content (the caller edited its structure in place in between)
            obj = SP.recycled(spec, ns.c.ConditionLike.from_spec) if len(repr(spec)) % 2 else None
            if obj is not None:
                out.label("recycled-spec-object")
            parsed = ns.c.ConditionLike.from_spec(obj if obj is not None else copy.deepcopy(spec))
    except Exception as e:
        out.exc("parse", e)
        return
    try:
        eq1, eq2 = parsed == dsl, dsl == parsed
    except Exception as e:
        out.exc("equality", e)
        return
    if not (eq1 is True and eq2 is True):
        out.add("equal-to-dsl", f"equal-to-dsl|{tag}", f"spec {show(spec,300)} parsed to {show(parsed,250)} != DSL {show(dsl,250)}")
        return
    for pd in probes:
        try:
            a = parsed.filter(pd).result
            b = dsl.filter(pd).result
        except Exception as e:
            out.exc("filter", e)
            return
        if a != b:
            out.add("filters-identically", f"filters-identically|{tag}", f"spec {show(spec,250)} on {show(pd,150)}: parsed {a} dsl {b}")
            return
        if use_model:
            exp = model.ref_filter(t, pd)
            if a != exp:
                out.add("filters-identically", f"vs-model|{tag}", f"spec {show(spec,250)} on {show(pd,150)}: parsed {a} model {exp}")
                return


def body(case):
    t, spec, dims, probes = case
    out = Outcome()
    l0 = leaves(t)[0] if leaves(t) else None
    nested = isinstance(t, Op)
    out.nontrivial = len(dims) >= 2 or nested
    for d in dims:
        out.label(f"dim:{d}")
    if nested:
        out.label("nested")
    out.sample = f"{show(spec,400)}  ==  {show(t,300)}"
    tag = "nested" if nested else f"{l0.kind}.{l0.pre or '-'}.{l0.name}"
    compare(out, t, spec, probes, tag)
    return out


# ----------------------------------------------------------------- data-path arguments
# (in_range takes no path-valued bounds: the library evaluates `x in range(lo, hi)`, which for a non-integer x walks
#  the whole range - a bound resolved from the document may be a 64-bit integer, and the C-level loop cannot be interrupted)
PATHABLE = ["equal_to", "not_equal_to", "less_than", "greater_than", "in_", "not_in",
            "equal_to_approx", "keys_contain", "keys_contain_any_of", "required_keys", "allowed_keys",
            "items_contain", "keys_contain_N_of", "has_factor"]


def small_path(r, mods=True, jsonable=False):
    parts = []
    for _ in range(r.between(1, 3)):
        c = r.pct()
        if c < 25:
            parts.append(G.blind_part(r, "typed", cond_depth=1, labels=False, meaningful=True, jsonable=jsonable))
        elif c < 40:
            # a container part that is equivalent to a primitive (the path stays non-concrete)
            k = r.choice(["a", "b", 0, 1, "x y"])
            if isinstance(k, str):
                parts.append(Part("map", key=Leaf("key", None, "equal_to", kwargs={"value": k})))
            else:
                parts.append(Part("mol", key=Leaf("key", None, "equal_to", kwargs={"value": k}),
                                  index=Leaf("index", None, "equal_to", kwargs={"value": k})))
        else:
            parts.append(Prim(r.choice(["a", "b", 0, 1, "x y"])))
    p = PathT(parts)
    if mods:
        conc = model.is_concrete(parts)
        if r.coin(40):
            p.datum = r.choice(["length", "dtype", "map_keys", "map_values"])
        if not conc and r.coin(40):
            p.multi = r.choice(["first", "last", "single", "all"])
        p.order = r.choice(["dm", "md"])
    return p


PATHY_KEYS = ["path", "path.length", "\\path", "xpath", "a\\path", "path.first.length", "PATH", "Path.Length", "\\PATH",
              "path.xpath", "pathpath", "a\\pathpath", "cfg.\\path", "dir.d\\path\\file", " path", "path ", "Path\t.len", "path\\path"]


def pathy_literal(r):
    d = {}
    if r.pct() < 30:
        d[r.choice(["b", "a", "z z"])] = G.json_value(r, 0)  # a plain key FIRST, the path-looking key after it
    d[r.choice(PATHY_KEYS)] = G.json_value(r, 1) if r.pct() < 85 else r.choice([{"path": ["a"]}, {"\\path": 1}, {"path.length": ["a", 0]}])
    if r.coin(40):
        d[r.choice(["b", "path", "\\path.x"])] = G.json_value(r, 0)
    return d


def gen_patharg(r):
    name = r.choice(PATHABLE)
    kind = "value"
    leaf = G.leaf_of_shape(r, (kind, None, name), "typed")
    mode = r.pct()
    mk = (lambda: small_path(r)) if mode < 65 else (lambda: pathy_literal(r))
    sg = SP.SIG_OF[name]
    if sg == "single":
        k = next(iter(leaf.kwargs))
        c = r.pct()
        if c < 50:
            v = mk()
        elif c < 75:
            v = [mk() if r.coin() else G.scalar(r) for _ in range(r.between(1, 3))]
            if r.coin(35):
                v = tuple(v)  # a tuple given as THE argument stays a tuple
        else:
            v = {kk: (mk() if r.coin() else G.scalar(r)) for kk in r.subset(["a", "b", "c"], 1, 2)}
            v["z"] = 0  # keep it multi-key so the mapping itself is a literal
        leaf = leaf.replace(kwargs={k: v})
    elif sg == "multi":
        kw = dict(leaf.kwargs)
        kk = r.choice(list(kw))
        kw[kk] = mk()
        leaf = leaf.replace(kwargs=kw)
    elif sg == "varpos":
        args = list(leaf.args)
        args[r.below(len(args))] = mk()
        leaf = leaf.replace(args=tuple(args))
    elif sg == "varkw":
        kw = dict(leaf.kwargs)
        kw[r.choice(list(kw))] = mk()
        leaf = leaf.replace(kwargs=kw)
    sp = SP.Spelling(r)
    spec = SP.leaf_spec(leaf, sp)
    return leaf, spec, sorted(sp.dims), [G.doc(r, 2)]


def body_patharg(case):
    t, spec, dims, probes = case
    out = Outcome()
    out.nontrivial = True
    out.label(f"patharg:{t.name}")
    out.sample = f"{show(spec,400)}  ==  {show(t,300)}"
    compare(out, t, spec, probes, f"patharg|{SP.SIG_OF[t.name]}", use_model=False)
    return out


def tests(tier):
    return [
        TestSpec("spelled-spec", gen_case, body, {"quick": 40, "thorough": 24000}, factors=SHAPES, tape=1024, fuzz={"thorough": 60000}),
        TestSpec("path-args", gen_patharg, body_patharg, {"quick": 1500, "thorough": 150000}, tape=768, fuzz={"thorough": 40000}),
    ]
