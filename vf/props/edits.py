"""Shared test: the caller edits its own document IN PLACE between calls.

Used by C01 / C02 (filter), C03 (path resolution), C05 (rule test), C06 (schema validation) and C08 (all of them):
every statement quantifies over "every document", so the answer of a call is a function of the definition and of
what the document holds WHEN THE CALL IS MADE - not of what the same objects were asked before.  One library object
(condition, path, rule, schema) is built once and used on one document object; between the calls the document is
edited in place (an item set, appended, inserted, deleted, a nested container changed).  After every edit

  * the next call's answer equals the reference model's answer for the document as it is now, and
  * (rule / schema kinds) the result object returned by the PREVIOUS call - not read until now - still gives the
    verdict, the counts and the failing paths of the document as it was when that call was made.

Nothing else is asserted: failure VALUES of earlier results are live references into the caller's document on the
unchanged tree and are not compared; Data wrappers are created anew for each call (whether a wrapper sees later edits
of what it wraps is not stated anywhere).
"""
import copy

from ..runner import TestSpec, Outcome
from ..terms import Null, Leaf, Op, Prim, Part, PathT, RuleT, SchemaT, show
from .. import model, build, gen as G
from ..snapshot import exact

KINDS = ("filter", "combo", "select", "rule", "schema")


# --------------------------------------------------------------------------- edits
def containers(doc, max_depth=3):
    """(container, depth) for the document and its nested containers, in walk order."""
    out = []

    def rec(n, d):
        if isinstance(n, (list, dict)):
            out.append(n)
            if d < max_depth:
                for _, c in model.items_of(n):
                    rec(c, d + 1)

    rec(doc, 0)
    return out


def plan_edit(r, doc):
    """One in-place edit as data: (container index, op, key/index, value)."""
    cs = containers(doc)
    ci = r.below(len(cs))
    if r.coin(45):
        ci = 0  # the top level (what a filter looks at)
    c = cs[ci]
    val = G.value(r, 1, G.hostile_scalar) if r.coin(80) else copy.deepcopy(r.choice(cs[1:])) if len(cs) > 1 else G.scalar(r)
    if isinstance(c, list):
        ops = ["set", "append", "insert"] if c else ["append"]
        if len(c) > 1 or (c and ci != 0):
            ops.append("delete")
        op = r.choice(ops)
        idx = r.below(len(c)) if c else 0
        return (ci, op, idx, val)
    keys = list(c.keys())
    ops = ["add"] + (["set"] if keys else [])
    if len(keys) > 1 or (keys and ci != 0):
        ops.append("delete")
    op = r.choice(ops)
    if op == "add":
        k = G.key(r) if r.coin(70) else r.choice(G.KEY_STRS)
        return (ci, "set", k, val)
    return (ci, op, r.choice(keys), val)


def apply_edit(doc, edit):
    ci, op, k, val = edit
    cs = containers(doc)
    if ci >= len(cs):
        return False
    c = cs[ci]
    val = copy.deepcopy(val)
    try:
        if isinstance(c, list):
            if op == "set":
                c[k] = val
            elif op == "append":
                c.append(val)
            elif op == "insert":
                c.insert(k, val)
            elif op == "delete":
                del c[k]
        else:
            if op == "set":
                c[k] = val
            elif op == "delete":
                del c[k]
    except (IndexError, KeyError):
        return False
    return True


def gen_case(r, kind):
    if kind in ("filter", "combo"):
        kc = r.choice(["value", "value", "key", "index"])
        doc = G.map_doc(r) if kc == "key" else G.list_doc(r) if kc == "index" else G.doc(r)
        kinds = ("value",) if kc == "value" else ("value", kc)
        if kind == "filter":
            t = G.leaf(r, (kc,) if r.coin(70) else kinds, "typed", meaningful=True)
        else:
            t = G.tree(r, kinds, "typed", depth=r.between(1, 3), null_p=5, meaningful=True)
            if isinstance(t, Null):
                t = Leaf("value", None, "truthy")
        x = t
    elif kind == "select":
        doc = G.hostile_doc(r, 3)
        x = G.guided_path(r, doc, max_len=3, miss=10, mode="typed", meaningful=True)
    elif kind == "rule" and r.pct() < 3:
        # membership in a list of a thousand and more allowed values that the document itself holds; the caller
        # replaces one of them in place between the calls
        n_ = r.choice([1000, 1024, 1500])
        allowed = list(range(n_))
        probe = r.choice([0, 5, n_ - 1, n_ // 2])
        doc = {"allowed": allowed, "x": probe, "y": r.choice([n_ + 5, -1, probe])}
        x = RuleT(PathT([Prim(r.choice(["x", "y"]))]), Leaf("value", None, r.choice(["in_", "not_in"]), kwargs={"value": PathT([Prim("allowed")])}))
        edits = [(1, "set", probe, -7), (1, "set", r.below(n_), n_ + 5)]
        return kind, x, doc, edits, r.coin(35)
    elif kind == "rule":
        doc = G.hostile_doc(r, 3)
        x = G.rule_for(r, doc, mode="typed", cast_p=25, cond_depth=1, max_len=3, meaningful=True)
    else:
        doc = G.hostile_doc(r, 3)
        x = G.schema_for(r, doc, min_rules=1, max_rules=3, mode="typed", cast_p=25, cond_depth=1, max_len=3, meaningful=True)
    # edits are planned against the evolving document
    work = copy.deepcopy(doc)
    edits = []
    for _ in range(r.between(1, 3)):
        e = plan_edit(r, work)
        if apply_edit(work, e) and isinstance(work, (list, dict)) and work:
            edits.append(e)
    return kind, x, doc, edits, r.coin(35)


# --------------------------------------------------------------------------- calls and references
def ref_answer(kind, x, doc):
    d = copy.deepcopy(doc)
    if kind in ("filter", "combo"):
        return model.ref_filter(x, d)
    if kind == "select":
        sel = model.ref_select(x.parts, d) if x.parts else [(d, ())]
        return [(exact(v), tuple(exact(k) for k in p)) for v, p in sel]
    if kind == "rule":
        if x.cast:
            ref = model.ref_schema_validate(SchemaT([x]), d)["tests"][0][1]
        else:
            ref = model.ref_rule_test(x, d)
        return (ref["valid"], ref["tested"], [tuple(exact(k) for k in p) for _, p in ref["fails"]])
    ref = model.ref_schema_validate(x, d)
    return (ref["valid"], ref["nfail"], ref["ntested"],
            [[tuple(exact(k) for k in p) for _, p in t["fails"]] for _, t in ref["tests"]])


def call(kind, obj, x, doc, wrap, ns):
    """-> (answer in the reference's format, result object or None)"""
    target = ns.da.Data(doc) if wrap else doc
    if kind in ("filter", "combo"):
        return list(obj.filter(target).result), None
    if kind == "select":
        got = raw = obj.get_data(target, return_paths=True)
        if not x.parts:
            got = [got]
        elif model.is_concrete(x.parts):
            got = [] if got is None else [got]
        ans = [(exact(v), tuple(exact(k) for k in p)) for v, p in got]
        if isinstance(raw, list):
            # the result list is the caller's: it is extended in place (`found += ...`), which must not show anywhere
            raw.append(("<caller's own item>", ("<caller>",)))
        return ans, None
    if kind == "rule":
        rt = obj.test(target)
        return None, rt
    vd = obj.validate(target)
    return None, vd


def read_result(kind, res):
    if kind == "rule":
        return (res.is_valid, bool(res.tested), [tuple(exact(k) for k in f.path) for f in res.failures])
    return (res.is_valid, res.num_failures, res.num_rules_tested,
            [[tuple(exact(k) for k in f.path) for f in rt.failures] for rt in res.rule_tests])


def body(case):
    kind, x, doc0, edits, wrap = case
    out = Outcome()
    ns = build.ns()
    doc = copy.deepcopy(doc0)  # the caller's document object, edited in place below
    out.label(f"kind:{kind}", "Data-wrapped-per-call" if wrap else "raw-document")
    out.sample = f"{kind}: {show(x,300)} on {show(doc,150)} then {show(edits,200)}"
    try:
        if kind in ("filter", "combo"):
            obj = build.build_cond(x)
        elif kind == "select":
            obj = build.build_path(x)
        elif kind == "rule":
            obj = build.build_rule(x)
        else:
            obj = build.build_schema(x)
    except Exception as e:
        out.label("build-refused")
        return out
    out.evals = 0
    refs = [ref_answer(kind, x, doc)]
    prev = None  # (result object of the previous call, its reference)
    changed = False
    for step in range(len(edits) + 1):
        if step:
            if not apply_edit(doc, edits[step - 1]) or not doc:
                out.label("edit-not-applicable")
                break
            refs.append(ref_answer(kind, x, doc))
            if refs[-1] != refs[-2]:
                changed = True
            # the earlier result, read only now, still describes the document as it was
            if prev is not None:
                try:
                    got_prev = read_result(kind, prev[0])
                    if got_prev != prev[1]:
                        out.add("earlier-result-stands", f"earlier-result-stands|{kind}",
                                f"result of call {step} read after the document was edited ({show(edits[step-1],120)}): {show(got_prev,200)}; for the document as tested: {show(prev[1],200)}")
                        return out
                except Exception as e:
                    out.exc(f"earlier-result-read|{kind}", e)
                    return out
        out.evals += 1
        try:
            ans, res = call(kind, obj, x, doc, wrap, ns)
        except Exception as e:
            if step == 0:
                out.label("first-call-raised")  # (the plain call is the business of the property's other tests)
                return out
            out.exc(f"after-edit-raised|{kind}", e)
            return out
        if res is not None and step == len(edits):
            ans = read_result(kind, res)
        if res is not None and step < len(edits):
            prev = (res, refs[step])
            continue
        if ans != refs[step]:
            if step == 0:
                out.label("first-call-differs")  # reported by the property's own differential test
                return out
            out.add("answer-follows-document", f"answer-follows-document|{kind}",
                    f"call {step + 1} after in-place edit {show(edits[step-1],120)} on {show(doc,150)}: got {show(ans,200)} expected {show(refs[step],200)}")
            return out
    out.nontrivial = changed
    if changed:
        out.label("edit-changes-the-answer")
    return out


def spec(kind, n_quick, n_thorough, name=None):
    def gen(r):
        return gen_case(r, kind)

    return TestSpec(name or f"in-place-edits-{kind}", gen, body, {"quick": n_quick, "thorough": n_thorough}, tape=2048)
