"""C10 - path, part, rule and YAML specs build the same objects as the Python API."""
import copy
import io
import os
import tempfile
import warnings

from ..runner import TestSpec, Outcome
from ..terms import Null, Leaf, Op, Prim, Part, PathT, RuleT, SchemaT, show, simp
from .. import model, build, gen as G, spec as SP
from ..snapshot import exact
from .c05 import check_rule_test

ID = "C10"
RULE = (
    "five generated routes, each compared with the API-built object by == (both directions) AND by behaviour on a "
    "probe document: (1) part specs (map_value / list_value / map_or_list_value or default type; key / index / value "
    "as long forms or one dotted shorthand per kind; labels) via ContainerValue.from_spec; (2) path specs "
    "{'path[.datum][.multi]': parts} with suffix aliases, either suffix order, any letter case via DataPath.from_spec, "
    "and bare part lists via from_part_specs; (3) delimiter strings ('/', '.', '|', '::', '->') with integer- and "
    "float-looking tokens, the empty token and tokens that begin / end with a character of the delimiter via DataPath.from_str; (4) rule specs with cast {'str': 'bool'|'int'} and doc as str / list / "
    "mapping (description and examples each optional) via Rule.from_spec, incl. the doc normal form; (5) the same "
    "schema as YAML text (block and flow style, ruamel safe dump; only texts that safe_load back type-exactly) via "
    "Schema.from_yaml and from_yaml_file. Non-trivial: the spec uses >=2 of {shorthand, non-default spelling, label, "
    "suffix pair, cast, structured doc, YAML route, numeric token}."
)
ASSUMPTIONS = [
    "a part condition that reduces to null is spelled by omitting the entry (explicit `key: {}` is rejected by the parser; the API accepts key=NullCondition(); not claimed equivalent)",
    "YAML round-trip pre-check tests ruamel, not valida; rejected texts are counted (label yaml-precheck-rejected)",
]


def sel_norm(x):
    return [(exact(v), tuple(exact(k) for k in p)) for v, p in x]


def parse(fn, spec):
    with warnings.catch_warnings():
        warnings.simplefilter("ignore")
        # in half of the cases the object parsed has been parsed before, when it held other content (the caller
        # edited its own structure in place in between): a parse is a function of what the spec holds now
        obj = SP.recycled(spec, fn) if len(repr(spec)) % 2 else None
        return fn(obj if obj is not None else copy.deepcopy(spec))


def eq_both(out, a, b, clause, tag, detail):
    try:
        e1, e2 = a == b, b == a
    except Exception as e:
        out.exc(f"{clause}|eq", e)
        return False
    if not (e1 is True and e2 is True):
        out.add(clause, f"{clause}|{tag}", detail)
        return False
    return True


# ------------------------------------------------------------------ (1) parts
def gen_part(r):
    d = G.doc(r, 3)
    p = G.guided_path(r, d, max_len=1, min_len=1, miss=15, mode="typed", labels=True, meaningful=True)
    part = p.parts[0] if p.parts else Part("map")
    if isinstance(part, Prim):
        part = G.blind_part(r, "typed", 1, labels=True, meaningful=True)
        if isinstance(part, Prim):
            part = Part(r.choice(["map", "list", "mol"]), label=r.choice([None, "L"]))
    sp = SP.Spelling(r)
    return part, SP.part_spec(part, sp), sorted(sp.dims), d


def body_part(case):
    part, spec, dims, doc = case
    out = Outcome()
    ns = build.ns()
    out.nontrivial = len(set(dims) | ({"label"} if part.label else set())) >= 2
    for d_ in dims:
        out.label(f"dim:{d_}")
    out.label(f"part:{part.ctype}")
    out.sample = f"{show(spec,350)} == {show(part,300)}"
    try:
        api = build.build_part(part)
    except Exception as e:
        out.exc("build-api", e)
        return out
    try:
        parsed = parse(ns.d.ContainerValue.from_spec, spec)
    except Exception as e:
        out.exc("parse-part", e)
        return out
    eq_both(out, parsed, api, "part-equal", part.ctype, f"spec {show(spec,300)} parsed to {show(parsed,250)} != API {show(api,250)}")
    if getattr(parsed, "label", None) != part.label:
        out.add("part-equal", "part-label", f"label {parsed.label!r} expected {part.label!r}")
    exp = sel_norm(model.ref_select([part], doc))
    try:
        got = ns.d.DataPath(parsed).get_data(doc, return_paths=True)
    except Exception as e:
        out.exc("part-behaviour", e)
        return out
    if sel_norm(got) != exp:
        out.add("part-behaviour", f"part-behaviour|{part.ctype}", f"spec {show(spec,300)} on {show(doc,150)}: selects {show(got,200)} expected {show(exp,200)}")
    return out


# ------------------------------------------------------------------ (2) paths
def gen_path(r):
    d = G.doc(r, 3)
    p = G.guided_path(r, d, max_len=3, miss=12, mode="typed", labels=True, meaningful=True)
    conc = model.is_concrete(p.parts)
    sel = model.ref_select(p.parts, d) if p.parts else [(d, ())]
    if r.coin(45):
        cands = [x for x in ("dtype", "length", "map_keys", "map_values") if all(model.datum_defined(x, n) for n, _ in sel)]
        p.datum = r.choice(cands)
    if not conc and p.parts and r.coin(45):
        p.multi = r.choice(["first", "last", "all"] + (["single"] if len(sel) <= 1 else []))
    p.order = r.choice(["dm", "md"])
    sp = SP.Spelling(r)
    return p, SP.path_spec(p, sp), sorted(sp.dims), d


def body_path(case):
    path, spec, dims, doc = case
    out = Outcome()
    ns = build.ns()
    feats = set(dims)
    if path.datum and path.multi:
        feats.add("suffix-pair")
    if any(getattr(p, "label", None) for p in path.parts):
        feats.add("label")
    out.nontrivial = len(feats) >= 2
    for f in sorted(feats):
        out.label(f"dim:{f}")
    out.sample = f"{show(spec,350)} == {show(path,300)}"
    try:
        api = build.build_path(path)
    except Exception as e:
        out.exc("build-api", e)
        return out
    try:
        parsed = parse(ns.d.DataPath.from_spec, spec)
        bare = ns.d.DataPath.from_part_specs(*copy.deepcopy(next(iter(spec.values()))))
    except Exception as e:
        out.exc("parse-path", e)
        return out
    eq_both(out, parsed, api, "path-equal", "from_spec", f"spec {show(spec,300)} parsed to {show(parsed,250)} != API {show(api,250)}")
    eq_both(out, bare, build.build_path(PathT(path.parts)), "path-equal", "from_part_specs", f"parts {show(spec,300)} -> {show(bare,250)}")
    try:
        exp = model.ref_resolve(path, doc)
    except model.RefError:
        return out
    except model.Undefined:
        return out
    try:
        got = parsed.get_data(doc)
    except Exception as e:
        out.exc("path-behaviour", e)
        return out
    if exact(got) != exact(exp):
        out.add("path-behaviour", "path-behaviour", f"spec {show(spec,300)} on {show(doc,150)}: got {show(got,200)} expected {show(exp,200)}")
    return out


# ------------------------------------------------------------------ (3) path strings
TOKENS = ["a", "b", "abc", "x y", "1", "0", "-3", "2.5", "1e3", "007", " 7 ", "-0", "true", "A", "1.0", "٣", "1_0", "+2", ".5", "inf2",
          # the empty key, and tokens that begin / end with a character of a multi-character delimiter (seeded C10-p)
          "", "", "b:", ":b", "a-", ">a", "-1"]
DELIMS = ["/", ".", "|", "::", "->"]


def token_part(tok):
    try:
        i = int(tok)
        return Part("mol", key=Leaf("key", None, "in_", kwargs={"value": (tok, i)}),
                    index=Leaf("index", None, "equal_to", kwargs={"value": i}))
    except ValueError:
        pass
    try:
        f = float(tok)
        if f != f or f in (float("inf"), float("-inf")):
            raise ValueError
        return Part("map", key=Leaf("key", None, "in_", kwargs={"value": (tok, f)}))
    except ValueError:
        return Prim(tok)


def gen_str(r):
    delim = r.choice(DELIMS)
    # a document built so that tokens exist as keys / indices
    toks = []
    for _ in range(r.between(0, 4)):
        t = r.choice(TOKENS + (["x/y", "a/1", "/"] if delim != "/" else []))
        if delim in t:
            t = t.replace(delim, "_")
        if delim == "." and "." in t:
            t = "a"
        toks.append(t)
    # build a document along the tokens
    def mk(i):
        if i >= len(toks):
            return G.scalar(r)
        t = toks[i]
        p = token_part(t)
        c = r.pct()
        child = mk(i + 1)
        if isinstance(p, Part) and p.ctype == "mol":
            n = int(t)
            if c < 35 and 0 <= n <= 4:
                lst = [G.scalar(r) for _ in range(n + 1 + r.below(2))]
                lst[n] = child
                return lst
            if c < 65:
                return {n: child, "other": 1}
            if c < 90:
                return {t: child, "z": G.scalar(r)}
            return {"miss": child}
        if isinstance(p, Part):
            if c < 45:
                return {float(t): child, "o": 2}
            if c < 90:
                return {t: child}
            return {"miss": child}
        return {t: child, "k": G.scalar(r)} if c < 90 else [child]
    d = mk(0)
    if not isinstance(d, (list, dict)) or not d:
        d = {"a": 1}
    return toks, delim, d


def body_str(case):
    toks, delim, doc = case
    out = Outcome()
    ns = build.ns()
    s = delim.join(toks)
    parts = [token_part(t) for t in toks] if s else []
    if s and delim.join(toks).split(delim) != toks:
        return out
    numeric = any(isinstance(p, Part) for p in parts)
    out.nontrivial = numeric and len(parts) >= 2 or (delim != "/" and len(parts) >= 2)
    out.label(f"delim:{delim}", "numeric-token" if numeric else "plain-tokens")
    out.sample = f"from_str({s!r}, {delim!r}) on {show(doc,200)}"
    if len(s) % 2:
        # the same text is first parsed under ANOTHER delimiter (what a string means depends on the delimiter given now)
        for d2 in DELIMS:
            if d2 != delim:
                try:
                    ns.d.DataPath.from_str(s, delimiter=d2)
                except Exception:
                    pass
        out.label("other-delimiters-first")
    try:
        parsed = ns.d.DataPath.from_str(s, delimiter=delim) if delim != "/" or len(toks) % 2 else ns.d.DataPath.from_str(s)
    except Exception as e:
        out.exc("parse-str", e)
        return out
    try:
        api = build.build_path(PathT(parts))
    except Exception as e:
        out.exc("build-api", e)
        return out
    if not numeric:
        # (for integer- / float-looking tokens no API-built equivalent is documented: only the
        #  behaviour is compared there)
        eq_both(out, parsed, api, "str-equal", "from_str", f"from_str({s!r}) = {show(parsed,250)} != API {show(api,250)}")
    exp = model.ref_select(parts, doc) if parts else [(doc, ())]
    try:
        got = parsed.get_data(doc, return_paths=True)
    except Exception as e:
        out.exc("str-behaviour", e)
        return out
    if not parts:
        got = [got]
    elif model.is_concrete(parts):
        got = [] if got is None else [got]
    if sel_norm(got) != sel_norm(exp):
        out.add("str-behaviour", "str-behaviour", f"from_str({s!r}) on {show(doc,150)}: got {show(got,200)} expected {show(exp,200)}")
        return out
    # the caller binds the parsed path to some other data (public attribute / constructor parameter) and parses
    # the same string again: the second parse is again equal to the API-built path and selects from the document given
    try:
        parsed.source_data = {"bound": [1, 2, 3]}
        again = ns.d.DataPath.from_str(s, delimiter=delim) if delim != "/" or len(toks) % 2 else ns.d.DataPath.from_str(s)
        if not numeric:
            eq_both(out, again, api, "str-equal", "from_str-again", f"second from_str({s!r}) = {show(again,250)} != API {show(api,250)}")
        got2 = again.get_data(doc, return_paths=True)
    except Exception as e:
        out.exc("str-behaviour-again", e)
        return out
    if not parts:
        got2 = [got2]
    elif model.is_concrete(parts):
        got2 = [] if got2 is None else [got2]
    if sel_norm(got2) != sel_norm(exp):
        out.add("str-behaviour", "str-behaviour|again", f"second from_str({s!r}) after the first result was bound to other data: got {show(got2,200)} expected {show(exp,200)}")
    return out


# ------------------------------------------------------------------ (4) rules, (5) YAML
def gen_rule(r):
    d = G.hostile_doc(r, 3)
    rl = G.rule_for(r, d, mode="typed", cast_p=40, cond_depth=2, max_len=3, with_doc=True, meaningful=True)
    if r.pct() < 10:
        # a literal mapping argument of several items whose path-looking key (written escaped) is not the first one
        lit = {r.choice(["a", "b", "z z"]): G.json_value(r, 0)}
        lit[r.choice(["path", "path.length", "PATH", "path.first", "\\path"])] = G.json_value(r, 1)
        if r.coin():
            lit["c"] = 0
        lc = Leaf("value", None, r.choice(["equal_to", "not_equal_to", "in_"]), kwargs={"value": lit})
        if lc.name == "in_":
            lc = lc.replace(kwargs={"value": [lit, 1]})
        rl = rl.replace(cond=Op(r.choice(["and", "or"]), rl.cond, lc) if r.coin() and not isinstance(rl.cond, Null) else lc)
    sp = SP.Spelling(r)
    return rl, SP.rule_spec(rl, sp), sorted(sp.dims), d


def same_doc(got, exp):
    """The doc block in its normal form: a mapping with 'description' and 'examples' lists of
    strings, compared up to surrounding whitespace of each string."""
    if exp is None:
        return not got
    try:
        return (
            [str(x).strip() for x in got["description"]] == [x.strip() for x in exp["description"]]
            and [str(x).strip() for x in got["examples"]] == [x.strip() for x in exp["examples"]]
            and all(isinstance(x, str) for x in list(got["description"]) + list(got["examples"]))
        )
    except (TypeError, KeyError, AttributeError):
        return False


def check_rule_obj(out, parsed, rl, doc, spec, tag):
    try:
        api = build.build_rule(rl)
    except Exception as e:
        out.exc("build-api", e)
        return
    eq_both(out, parsed, api, "rule-equal", tag, f"spec {show(spec,300)} parsed to {show(parsed,250)} != API {show(api,250)}")
    if rl.doc is not None or parsed.doc:
        if not same_doc(parsed.doc, rl.doc):
            out.add("doc-normal-form", f"doc-normal-form|{tag}", f"doc {parsed.doc!r} expected {rl.doc!r} from spec {show(spec.get('doc'),200)}")
    ref = model.ref_schema_validate(SchemaT([rl]), doc)
    try:
        rt = parsed.test(doc)
    except Exception as e:
        out.exc("rule-behaviour", e)
        return
    check_rule_test(out, rt, ref["tests"][0][1], ref["cast"], prefix=f"{tag}-", scalars_only=True)


def body_rule(case):
    rl, spec, dims, doc = case
    out = Outcome()
    ns = build.ns()
    feats = set(dims)
    if rl.cast:
        feats.add("cast")
    if isinstance(spec.get("doc"), dict):
        feats.add("structured-doc")
    out.nontrivial = len(feats) >= 2
    for f in sorted(feats):
        out.label(f"dim:{f}")
    out.sample = f"{show(spec,450)}"
    try:
        # both documented entry points of a rule spec
        parsed = parse(ns.r.Rule.from_spec, spec)
        parsed_j = parse(ns.r.Rule.from_json_like, spec)
    except Exception as e:
        out.exc("parse-rule", e)
        return out
    check_rule_obj(out, parsed, rl, doc, spec, "rule")
    eq_both(out, parsed_j, parsed, "rule-equal", "from_json_like", f"Rule.from_json_like({show(spec,250)}) = {show(parsed_j,200)} but from_spec gives {show(parsed,200)}")
    # the caller adds to the doc block of the rule it got (e.g. one more example): another rule parsed from the same
    # spec - before or afterwards - keeps the doc block the spec describes
    if isinstance(parsed.doc, dict) and not out.violations:
        try:
            for k_ in ("description", "examples"):
                if isinstance(parsed.doc.get(k_), list):
                    parsed.doc[k_].append("<added by the caller>")
            later = ns.r.Rule.from_spec(copy.deepcopy(spec))
            for which, other in (("parsed-before", parsed_j), ("parsed-afterwards", later)):
                if (rl.doc is not None or other.doc) and not same_doc(other.doc, rl.doc):
                    out.add("doc-normal-form", f"doc-normal-form|independent|{which}",
                            f"after the caller appended to ANOTHER rule's doc block, the rule {which} from {show(spec.get('doc'),150)} has doc {other.doc!r}, expected {rl.doc!r}")
                    break
        except Exception as e:
            out.exc("parse-rule-again", e)
    return out


def yamlable(x):
    """type objects / tuples cannot be written in safe YAML"""
    if isinstance(x, (type, tuple)):
        return False
    if isinstance(x, dict):
        return all(yamlable(k) and yamlable(v) for k, v in x.items())
    if isinstance(x, list):
        return all(yamlable(v) for v in x)
    return True


def gen_yaml(r):
    d = G.hostile_doc(r, 3)
    rules = [G.rule_for(r, d, mode="typed", cast_p=40, cond_depth=2, max_len=3, with_doc=True, meaningful=True)
             for _ in range(r.between(1, 3))]
    sp = SP.Spelling(r)
    sp.force_names = True
    spec = SP.schema_spec(SchemaT(rules), sp)
    return SchemaT(rules), spec, sorted(sp.dims), d, r.choice(["block", "flow", "literal"]), r.coin()


def body_yaml(case):
    schema, spec, dims, doc, style, via_file = case
    out = Outcome()
    ns = build.ns()
    from ruamel.yaml import YAML

    out.nontrivial = True
    out.label(f"yaml:{style}", "via-file" if via_file else "via-text")
    if not yamlable(spec):
        out.label("yaml-not-representable")
        out.nontrivial = False
        return out
    y = YAML(typ="safe")
    y.default_flow_style = style == "flow"
    buf = io.StringIO()
    try:
        if style == "literal":
            # multi-line strings written as block literals (`|`), as a person writing a schema file would
            from ruamel.yaml.scalarstring import LiteralScalarString

            def lit(x):
                if isinstance(x, dict):
                    return {k: lit(v) for k, v in x.items()}
                if isinstance(x, list):
                    return [lit(v) for v in x]
                if isinstance(x, str) and "\n" in x:
                    return LiteralScalarString(x)
                return x

            y = YAML()
            y.dump(lit(spec), buf)
        else:
            y.dump(spec, buf)
        text = buf.getvalue()
        back = YAML(typ="safe").load(text)
    except Exception:
        out.label("yaml-precheck-rejected")
        out.nontrivial = False
        return out
    if exact(back) != exact(spec):
        out.label("yaml-precheck-rejected")
        out.nontrivial = False
        return out
    out.sample = text[:500]
    try:
        if via_file:
            with tempfile.TemporaryDirectory() as td:
                fn = os.path.join(td, "schema.yaml")
                with open(fn, "w", encoding="utf-8") as fh:
                    fh.write(text)
                with warnings.catch_warnings():
                    warnings.simplefilter("ignore")
                    parsed = ns.s.Schema.from_yaml_file(fn)
        else:
            with warnings.catch_warnings():
                warnings.simplefilter("ignore")
                parsed = ns.s.Schema.from_yaml(text)
    except Exception as e:
        out.exc("parse-yaml", e)
        return out
    try:
        api = build.build_schema(schema)
    except Exception as e:
        out.exc("build-api", e)
        return out
    eq_both(out, parsed, api, "schema-equal", "yaml", f"yaml {text[:300]!r} parsed to {show(parsed.rules,250)} != API {show(api.rules,250)}")
    ref = model.ref_schema_validate(schema, doc)
    try:
        vd = parsed.validate(doc)
    except Exception as e:
        out.exc("yaml-behaviour", e)
        return out
    if vd.is_valid is not ref["valid"] or vd.num_failures != ref["nfail"] or exact(vd.cast_data) != exact(ref["cast"]):
        out.add("yaml-behaviour", "yaml-behaviour", f"valid={vd.is_valid} nfail={vd.num_failures} expected {ref['valid']} {ref['nfail']}; cast {show(vd.cast_data,150)} expected {show(ref['cast'],150)}")
    # docs normal form per rule (Schema sorts rules: compare in sorted order)
    order = model.rule_order(schema.rules)
    for j, i in enumerate(order):
        if j < len(parsed.rules):
            rl = schema.rules[i]
            pd = parsed.rules[j].doc
            if (rl.doc is not None or pd) and not same_doc(pd, rl.doc):
                out.add("doc-normal-form", "doc-normal-form|yaml", f"doc {pd!r} expected {rl.doc!r}")
                break
    return out


def tests(tier):
    return [
        TestSpec("part-spec", gen_part, body_part, {"quick": 1500, "thorough": 150000}, tape=1024, fuzz={"thorough": 40000}),
        TestSpec("path-spec", gen_path, body_path, {"quick": 1500, "thorough": 150000}, tape=1280, fuzz={"thorough": 40000}),
        TestSpec("path-str", gen_str, body_str, {"quick": 1500, "thorough": 100000}, tape=512, fuzz={"thorough": 40000}),
        TestSpec("rule-spec", gen_rule, body_rule, {"quick": 1500, "thorough": 150000}, tape=1536, fuzz={"thorough": 40000}),
        TestSpec("yaml", gen_yaml, body_yaml, {"quick": 600, "thorough": 40000}, tape=3072, fuzz={"thorough": 15000}),
    ]
