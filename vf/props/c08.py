"""C08 - validation is read-only: inputs and schema unchanged, results repeatable."""
import copy

from ..runner import TestSpec, Outcome
from ..terms import SchemaT, RuleT, PathT, show
from .. import model, build, gen as G
from ..snapshot import exact, fingerprint, fp_diff, Trace, aliases
from . import c15
from . import edits

ID = "C08"
RULE = (
    "histories: shared objects built once from terms - 1-2 schemas (with and without casts, cast-directed, nested "
    "cast rule paths), their rules, conditions and paths, and 3 documents (two independent hostile documents and a "
    "perturbed copy of the first), each raw and Data-wrapped; a program of 4-30 calls in any interleaving: "
    "cond.filter(doc), path.get_data(doc[, return_paths]), Data(doc).get(path), rule.test(doc), schema.validate(doc), "
    "repeat(earlier call). After EVERY call: every document type-exactly unchanged and not aliased by cast_data; "
    "fingerprint of every shared valida object unchanged; the harness-side write tracer saw zero attribute writes to "
    "pre-existing objects; the result equals the same call on freshly built objects with a fresh deep copy, and equals "
    "the first time the same call was made. Non-trivial: some shared object is used by >=2 calls of different kinds, "
    "with a cast-declaring call followed by a later call; distinct by hash of the history term. Thorough tier adds a "
    "thread-stress variant (8 threads run the history's calls concurrently on the shared objects; corroboration only)."
)
ASSUMPTIONS = [
    "thread schedules are not enumerated: the deciding argument is that no call writes to a shared object (tracer + fingerprints), which makes every interleaving equivalent to a sequential one",
    "write tracing wraps __setattr__ of valida's classes from the harness; writes through object.__setattr__ or into C-level state would not be seen (valida has neither)",
]


def perturb(r, x):
    """Copy of x with some scalars replaced."""
    if isinstance(x, dict):
        return {k: perturb(r, v) for k, v in x.items()}
    if isinstance(x, list):
        return [perturb(r, v) for v in x]
    if r.pct() < 35:
        return G.hostile_scalar(r)
    return x


def gen_case(r):
    d0, s0, _ = c15.gen_case(r)
    if r.pct() < 35 and s0.rules:
        # a shared condition with data-path arguments (resolved against each validated document)
        from . import c17
        i = r.below(len(s0.rules))
        rl = s0.rules[i]
        s0 = SchemaT(s0.rules[:i] + [rl.replace(cond=c17.gen_leaf_with_paths(r, d0), cast=None)] + s0.rules[i + 1:])
    if r.pct() < 4:
        # sibling containers, the first a long list that a bare list part selects completely (results of several
        # containers are put together; nothing of the document may end up shared with what is handed back and extended)
        from ..terms import RuleT, PathT, Part
        n_ = r.choice([33, 40, 65])
        first = G.fill(r, n_, G.hostile_scalar)
        d0 = [first, [G.hostile_scalar(r) for _ in range(r.between(1, 3))]] if r.coin() else {"a": first, "b": [G.hostile_scalar(r), "7"]}
        s0 = SchemaT([RuleT(PathT([Part(r.choice(["mol", "map" if isinstance(d0, dict) else "list"])), Part("list")]), G.tree(r, ("value",), "typed", 1), r.choice([None, "int", "bool"]))] + list(s0.rules[:1]))
    schemas = [s0]
    if r.coin(40):
        schemas.append(G.schema_for(r, d0, min_rules=1, max_rules=3, mode="typed", cast_p=0, cond_depth=2))
    docs = [d0, G.hostile_doc(r, 3), perturb(r, d0)]
    nrules = sum(len(s.rules) for s in schemas)
    prog = []
    for _ in range(r.between(4, 30)):
        c = r.pct()
        di, wrap = r.below(3), r.coin(35)
        if c < 4:
            prog.append(("filterp", r.below(nrules), di))
        elif c < 15:
            prog.append(("filter", r.below(nrules), di, wrap))
        elif c < 30:
            prog.append(("get", r.below(nrules), di, wrap, r.coin(), r.choice([None, None, "dtype", "first", "last", "all"])))
        elif c < 40:
            prog.append(("dataget", r.below(nrules), di))
        elif c < 62:
            prog.append(("test", r.below(nrules), di, wrap))
        elif c < 88:
            prog.append(("validate", r.below(len(schemas)), di, wrap))
        elif prog:
            prog.append(("repeat", r.below(len(prog))))
    return schemas, docs, prog


class World:
    def __init__(self, schemas, docs):
        ns = build.ns()
        self.docs = [copy.deepcopy(d) for d in docs]
        self.wrapped = [ns.da.Data(d) for d in self.docs]
        self.schemas = [build.build_schema(s) for s in schemas]
        # rule objects in term order (Schema sorts its own list; keep our own handles)
        self.rules = []
        self.rule_terms = []
        for st, so in zip(schemas, self.schemas):
            order = model.rule_order(st.rules)
            for j, i in enumerate(order):
                self.rules.append(so.rules[j])
                self.rule_terms.append(st.rules[i])

    def shared(self):
        return self.schemas + self.rules + self.wrapped

    def call(self, op):
        ns = build.ns()
        kind = op[0]
        if kind == "filter":
            _, ri, di, wrap = op
            res = self.rules[ri].condition.filter(self.wrapped[di] if wrap else self.docs[di])
            return ("filter", list(res.result), [exact(x) for x in res.data], list(res.failure_indices))
        if kind == "filterp":
            # the rarely used form filter(items, data_has_paths=True) on a list of (value, path)
            # pairs that the caller keeps (and passes again later)
            _, ri, di = op
            if not hasattr(self, "pairs"):
                self.pairs = {}
            if (ri, di) not in self.pairs:
                got = self.rules[ri].path.get_data(self.docs[di], return_paths=True)
                if got is None:
                    got = []
                elif isinstance(got, tuple):
                    got = [got]
                self.pairs[(ri, di)] = list(got)
            pairs = self.pairs[(ri, di)]
            if not pairs:
                return ("filterp", None)
            res = self.rules[ri].condition.filter(pairs, data_has_paths=True, source_data=ns.da.Data(self.docs[di]))
            return ("filterp", list(res.result), exact(pairs))
        if kind == "get":
            _, ri, di, wrap, rp, mod = op
            path = self.rules[ri].path
            if mod == "dtype":
                path = path.dtype()
            elif mod and not path.is_concrete:
                path = getattr(path, mod)()
            res = path.get_data(self.wrapped[di] if wrap else self.docs[di], return_paths=rp)
            return ("get", exact(res))
        if kind == "dataget":
            _, ri, di = op
            return ("dataget", exact(ns.da.Data(self.docs[di]).get(self.rules[ri].path)))
        if kind == "test":
            _, ri, di, wrap = op
            rt = self.rules[ri].test(self.wrapped[di] if wrap else self.docs[di])
            self._last_cast = rt.data.get_original() if self.rule_terms[ri].cast else None
            return ("test", rt.is_valid, rt.tested, rt.num_failures,
                    [(exact(f.value), exact(tuple(f.path)), f.reasons) for f in rt.failures],
                    exact(rt.data.get_original()))
        if kind == "validate":
            _, si, di, wrap = op
            vd = self.schemas[si].validate(self.wrapped[di] if wrap else self.docs[di])
            self._last_cast = vd.cast_data
            return ("validate", vd.is_valid, vd.num_failures, vd.num_rules_tested,
                    [(rt.is_valid, rt.tested, [(exact(f.value), exact(tuple(f.path))) for f in rt.failures]) for rt in vd.rule_tests],
                    exact(vd.cast_data), vd.get_failures_string())
        raise AssertionError(kind)


def resolve(prog):
    out = []
    for op in prog:
        while op[0] == "repeat":
            op = out[op[1]] if op[1] < len(out) else None
            if op is None:
                break
        if op is not None:
            out.append(op)
    return out


def body(case):
    from .c18 import drive

    schemas, docs, prog = case
    return drive(history(schemas, docs), resolve(prog))


def history(schemas, docs):
    """Interpreter of a C08 history as a coroutine (one `op = yield` per call, None = end);
    every invariant is checked after every call."""
    out = Outcome()
    prog = []
    try:
        W = World(schemas, docs)
    except Exception as e:
        out.exc("build", e)
        return out
    doc_snap = [exact(d) for d in W.docs]
    shared = W.shared()
    fp0 = fingerprint(*shared)
    first = {}
    used = {}  # shared object key -> set of call kinds
    cast_then_later = False
    cast_seen = False
    out.evals = 0
    i = -1
    while True:
        op = yield
        if op is None:
            break
        i += 1
        prog.append(op)
        kind = op[0]
        W._last_cast = None
        try:
            with Trace(*shared) as writes:
                res = W.call(op)
        except Exception as e:
            out.exc(f"call-{kind}", e)
            break
        out.evals += 1
        out.label(f"op:{kind}")
        # (iii) tracer
        if writes:
            w = writes[0]
            out.add("no-writes", f"no-writes|{w[0]}.{w[1]}|in:{w[2]}", f"step {i} {op!r}: attribute writes to shared objects: {writes[:4]!r}")
            break
        # (i) documents
        for di, d in enumerate(W.docs):
            if exact(d) != doc_snap[di]:
                out.add("document-unchanged", f"document-unchanged|{kind}", f"step {i} {op!r}: document {di} changed to {show(d,250)}")
                break
        # (only when a cast replaced something: where nothing had to be written, handing back the document's own
        #  containers is not observable through any statement)
        if W._last_cast is not None and any(aliases(W._last_cast, d) and exact(W._last_cast) != exact(d) for d in W.docs):
            out.add("document-unchanged", f"cast-copy-aliases-document|{kind}", f"step {i} {op!r}: returned cast data shares a container with the caller's document")
        # (ii) fingerprints
        fp = fingerprint(*shared)
        if fp != fp0:
            out.add("objects-unchanged", f"objects-unchanged|{kind}", f"step {i} {op!r}: {fp_diff(fp0, fp)}")
            break
        # (iv) differential vs fresh objects, and vs first time
        try:
            F = World(schemas, docs)
            fres = F.call(op)
        except Exception as e:
            out.exc(f"fresh-call-{kind}", e)
            break
        if res != fres:
            out.add("repeatable", f"repeatable|vs-fresh|{kind}", f"step {i} {op!r}: shared objects gave {show(res,250)}, fresh objects {show(fres,250)}")
            break
        if op in first and first[op] != res:
            out.add("repeatable", f"repeatable|vs-first|{kind}", f"step {i} {op!r}: differs from the first time this call was made")
            break
        first.setdefault(op, res)
        if out.violations:
            break
        # classification
        if kind in ("filter", "filterp", "get", "dataget", "test"):
            key = ("rule", op[1])
            is_cast = bool(W.rule_terms[op[1]].cast) and kind == "test"
        else:
            key = ("schema", op[1])
            is_cast = any(r_.cast for r_ in schemas[op[1]].rules)
        used.setdefault(key, set()).add(kind)
        used.setdefault(("doc", op[2]), set()).add(kind)
        if cast_seen:
            cast_then_later = True
        if is_cast:
            cast_seen = True
    out.nontrivial = cast_then_later and any(len(v) >= 2 for v in used.values())
    out.sample = f"schemas={show(schemas,350)} docs={show(docs,200)} program={show(prog,300)}"
    return out


def machine(seed, n, record):
    """Hypothesis RuleBasedStateMachine over the same interpreter: shared schemas / rules /
    documents are decoded from a tape at initialisation, every rule performs ONE call."""
    import hypothesis as hy
    from hypothesis import strategies as st
    from hypothesis.stateful import RuleBasedStateMachine, rule, initialize, precondition, run_state_machine_as_test
    from ..runner import hyp_settings

    idx = st.integers(0, 255)
    di = st.integers(0, 2)
    flag = st.booleans()

    class M(RuleBasedStateMachine):
        def __init__(self):
            super().__init__()
            self.g = None
            self.done = None
            self.prog = []

        @initialize(t=st.binary(min_size=3072, max_size=3072))
        def setup(self, t):
            schemas, docs, _ = gen_case(G.R(t))
            self.static = (schemas, docs)
            self.nrules = sum(len(s.rules) for s in schemas)
            self.g = history(schemas, docs)
            try:
                next(self.g)
            except StopIteration as e:
                self.done = e.value

        def send(self, op):
            if self.done is not None or self.g is None:
                return
            self.prog.append(op)
            try:
                self.g.send(op)
            except StopIteration as e:
                self.done = e.value

        @precondition(lambda self: getattr(self, "nrules", 0) > 0)
        @rule(ri=idx, d=di, wrap=flag)
        def filter(self, ri, d, wrap):
            self.send(("filter", ri % self.nrules, d, wrap))

        @precondition(lambda self: getattr(self, "nrules", 0) > 0)
        @rule(ri=idx, d=di, wrap=flag, rp=flag, mod=st.sampled_from([None, "dtype", "first", "last", "all"]))
        def get(self, ri, d, wrap, rp, mod):
            self.send(("get", ri % self.nrules, d, wrap, rp, mod))

        @precondition(lambda self: getattr(self, "nrules", 0) > 0)
        @rule(ri=idx, d=di)
        def filter_pairs(self, ri, d):
            self.send(("filterp", ri % self.nrules, d))

        @precondition(lambda self: getattr(self, "nrules", 0) > 0)
        @rule(ri=idx, d=di)
        def dataget(self, ri, d):
            self.send(("dataget", ri % self.nrules, d))

        @precondition(lambda self: getattr(self, "nrules", 0) > 0)
        @rule(ri=idx, d=di, wrap=flag)
        def test(self, ri, d, wrap):
            self.send(("test", ri % self.nrules, d, wrap))

        @rule(si=idx, d=di, wrap=flag)
        def validate(self, si, d, wrap):
            self.send(("validate", si % len(self.static[0]), d, wrap))

        @precondition(lambda self: len(self.prog) > 0)
        @rule(k=idx)
        def repeat(self, k):
            self.send(self.prog[k % len(self.prog)])

        def teardown(self):
            if self.g is None:
                return
            if self.done is None:
                try:
                    self.g.send(None)
                except StopIteration as e:
                    self.done = e.value
            if self.done is not None:
                record(tuple(self.static) + (list(self.prog),), self.done)

    run_state_machine_as_test(hy.seed(seed)(M), settings=hy.settings(hyp_settings(n), stateful_step_count=20))


def body_threads(case):
    """Corroboration only: the same calls run concurrently on the shared objects."""
    import concurrent.futures as cf

    schemas, docs, prog = case
    out = Outcome()
    prog = resolve(prog)
    if not prog:
        return out
    try:
        W = World(schemas, docs)
        exp = []
        for op in prog:
            exp.append(World(schemas, docs).call(op))
    except Exception as e:
        out.exc("build", e)
        return out

    class TW(World):
        pass

    def run(op):
        # thread-local scratch for _last_cast is irrelevant here
        return W.call(op)

    try:
        with cf.ThreadPoolExecutor(8) as ex:
            got = list(ex.map(run, prog * 3))
    except Exception as e:
        out.exc("threaded-call", e)
        return out
    for k, g in enumerate(got):
        if g != exp[k % len(prog)]:
            out.add("repeatable", "repeatable|threads", f"call {prog[k % len(prog)]!r} gave a different result under concurrency")
            break
    out.nontrivial = len(prog) >= 4
    out.evals = len(got)
    return out


def tests(tier):
    ts = [
        TestSpec("history", gen_case, body, {"quick": 400, "thorough": 40000}, tape=3072, fuzz={"thorough": 5000}),
        TestSpec("history-machine", gen_case, body, {"quick": 80, "thorough": 6000}, tape=3072, machine=machine),
    ]
    # the caller edits its own document in place between calls (all five kinds of call)
    ts += [edits.spec(k, 300, 30000) for k in edits.KINDS]
    if tier == "thorough":
        ts.append(TestSpec("threads", gen_case, body_threads, {"quick": 50, "thorough": 3000}, tape=3072))
    return ts
