"""C06 - schema verdict is the order-independent conjunction of its rules' verdicts."""
import itertools

from ..runner import TestSpec, Outcome
from ..terms import SchemaT, show
from .. import model, build, gen as G
from ..snapshot import exact

ID = "C06"
RULE = (
    "cast-free schemas of 0-5 rules (C05 rules over one document, mixed path lengths, 15% duplicated rules) x "
    "ALL permutations of the rule list for <=4 rules (24), 12 tape-drawn permutations for 5 rules x document. "
    "Per permutation: is_valid / num_failures / num_rules_tested / frac_rules_tested vs the reference "
    "conjunction / sum / count; len(rule_tests); Schema.rules is the stable sort by path length; multiset of "
    "(rule, failing path) equal for all permutations and equal to the reference; get_failures_string() is a str "
    "naming every failing path. Non-trivial: >=2 rules, at least one invalid and one valid-or-untested rule, >=2 "
    "permutations compared; distinct by hash of the (document, schema) term. evaluations counts permutations."
)
ASSUMPTIONS = [
    "frac_rules_tested is not evaluated for the empty schema (the statement defines no fraction there)",
    "the failure report is checked format-tolerantly: a line starting with 'Path:' that contains the repr of every component of the failing path, in order",
]


def gen_case(r):
    d = G.doc(r, 4 if r.coin(50) else 3)
    n = r.between(0, 5)
    rules = []
    for _ in range(n):
        if rules and r.pct() < 15:
            rules.append(r.choice(rules))
        else:
            rl = G.rule_for(r, d, mode="typed", cond_depth=2, max_len=3)
            if r.coin(40):
                sel = model.ref_select(rl.path.parts, d) if rl.path.parts else [(d, ())]
                if sel:
                    rl = rl.replace(cond=G.anchored_value_cond(r, r.choice(sel)[0], "typed", 1))
            rules.append(rl)
    perm_seeds = [[r.below(k + 1) for k in range(n)] for _ in range(12)] if n == 5 else []
    return d, SchemaT(rules), perm_seeds


def _perm_from(seed):
    # Fisher-Yates driven by tape-drawn indices
    idx = list(range(len(seed)))
    for k in range(len(seed) - 1, 0, -1):
        j = seed[k] % (k + 1)
        idx[k], idx[j] = idx[j], idx[k]
    return tuple(idx)


def path_named(report, path):
    comps = [repr(k) for k in path]
    for line in report.splitlines():
        if not line.lstrip().startswith("Path:"):
            continue
        pos, ok = 0, True
        for c in comps:
            j = line.find(c, pos)
            if j < 0:
                ok = False
                break
            pos = j + len(c)
        if ok:
            return True
    return False


def body(case):
    doc, schema, perm_seeds = case
    out = Outcome()
    ns = build.ns()
    n = len(schema.rules)
    try:
        robjs = [build.build_rule(rl) for rl in schema.rules]
    except Exception as e:
        out.exc("build-rule", e)
        return out
    if n <= 4:
        perms = list(itertools.permutations(range(n)))
    else:
        perms = sorted(set([tuple(range(n))] + [_perm_from(s) for s in perm_seeds]))
    per_rule = [model.ref_rule_test(rl, doc) for rl in schema.rules]
    exp_valid = all(t["valid"] for t in per_rule)
    exp_nfail = sum(len(t["fails"]) for t in per_rule)
    exp_ntested = sum(1 for t in per_rule if t["tested"])
    exp_pairs = sorted((i, tuple(exact(k) for k in p)) for i, t in enumerate(per_rule) for _, p in t["fails"])
    n_invalid = sum(1 for t in per_rule if not t["valid"])
    out.nontrivial = n >= 2 and 0 < n_invalid < n and len(perms) >= 2
    out.label(f"rules:{n}", "valid" if exp_valid else "invalid")
    out.evals = 0
    out.sample = f"{show(schema,450)} on {show(doc,150)} -> valid={exp_valid} nfail={exp_nfail} perms={len(perms)}"
    for pi in perms:
        out.evals += 1
        rules_pi = [robjs[i] for i in pi]
        try:
            S = ns.s.Schema(list(rules_pi))
            order = sorted(range(n), key=lambda j: len(schema.rules[pi[j]].path.parts))
            exp_rules = [rules_pi[j] for j in order]
            if len(S.rules) != n or any(a is not b for a, b in zip(S.rules, exp_rules)):
                out.add("stable-order", "stable-order", f"perm {pi}: rules not the stable sort by path length")
            vd = S.validate(doc)
        except Exception as e:
            out.exc("no-raise|validate", e)
            break
        try:
            if vd.is_valid is not exp_valid:
                out.add("conjunction", "conjunction", f"perm {pi}: is_valid={vd.is_valid!r} expected {exp_valid}")
            if vd.num_failures != exp_nfail:
                out.add("failure-sum", "failure-sum", f"perm {pi}: num_failures={vd.num_failures} expected {exp_nfail}")
            if vd.num_rules_tested != exp_ntested:
                out.add("tested-count", "tested-count", f"perm {pi}: num_rules_tested={vd.num_rules_tested} expected {exp_ntested}")
            if len(vd.rule_tests) != n:
                out.add("every-rule-applied", "every-rule-applied", f"perm {pi}: {len(vd.rule_tests)} rule tests for {n} rules")
            if n > 0 and vd.frac_rules_tested != exp_ntested / n:
                out.add("tested-count", "frac-tested", f"perm {pi}: frac={vd.frac_rules_tested} expected {exp_ntested / n}")
            ident = {id(o): [] for o in robjs}
            for i, o in enumerate(robjs):
                ident[id(o)].append(i)
            got_pairs = []
            # map each rule test back to an index of the term list (duplicates: by position in the sorted order)
            used = {}
            for rt in vd.rule_tests:
                cands = ident.get(id(rt.rule))
                if cands is None:
                    out.add("every-rule-applied", "foreign-rule", f"perm {pi}: rule test for a rule not in the schema")
                    continue
                k = used.get(id(rt.rule), 0)
                used[id(rt.rule)] = k + 1
                i = cands[min(k, len(cands) - 1)]
                for f in rt.failures:
                    got_pairs.append((i, tuple(exact(x) for x in f.path)))
            if sorted(got_pairs) != exp_pairs:
                out.add("failing-pairs", "failing-pairs", f"perm {pi}: (rule, failing path) pairs {sorted(got_pairs)!r} expected {exp_pairs!r}"[:600])
            rep = vd.get_failures_string()
            if not isinstance(rep, str):
                out.add("report-is-string", "report-is-string|" + ("valid" if exp_valid else "invalid"),
                        f"get_failures_string() returned {rep!r} (valid={exp_valid})")
            elif exp_nfail:
                for i, t in enumerate(per_rule):
                    for _, p in t["fails"]:
                        if not path_named(rep, p):
                            out.add("report-names-paths", "report-names-paths", f"failing path {p!r} not named in report {rep!r}"[:600])
                            break
        except Exception as e:
            out.exc("no-raise|aggregates", e)
            break
        if out.violations:
            break
    return out


def tests(tier):
    return [TestSpec("schema-perms", gen_case, body, {"quick": 1500, "thorough": 120000}, tape=2048)]
