"""C06 - schema verdict is the order-independent conjunction of its rules' verdicts."""
import itertools

from ..runner import TestSpec, Outcome
from ..terms import SchemaT, show
from .. import model, build, gen as G
from ..snapshot import exact
from . import edits

ID = "C06"
RULE = (
    "cast-free schemas of 0-5 rules (C05 rules over one document, mixed path lengths, 15% duplicated rules) x "
    "ALL permutations of the rule list for <=4 rules (24), 12 tape-drawn permutations for 5 rules x document. "
    "Per permutation: is_valid / num_failures / num_rules_tested / frac_rules_tested vs the reference "
    "conjunction / sum / count; len(rule_tests); Schema.rules is the stable sort by path length; multiset of "
    "(rule, failing path) equal for all permutations and equal to the reference; get_failures_string() is a str "
    "naming every failing path. Non-trivial: >=2 rules, at least one invalid and one valid-or-untested rule, >=2 "
    "permutations compared; distinct by hash of the (document, schema) term. evaluations counts permutations."
)
ASSUMPTIONS = [
    "frac_rules_tested is not evaluated for the empty schema (the statement defines no fraction there)",
    "the failure report is checked format-tolerantly: some line of the report contains the repr of every component of the failing path, in order",
]


def gen_case(r):
    d = G.cap(G.doc(r, 4 if r.coin(50) else 3), 300)  # (validated once per permutation: no thousand-item containers here)
    n = r.between(0, 5)
    rules = []
    for _ in range(n):
        c0 = r.pct()
        if rules and c0 < 15:
            rules.append(r.choice(rules))
        elif rules and c0 < 30 and G.twin_path(r, rules[-1].path) is not None:
            # a rule whose path equals an earlier one up to the TYPE of one primitive part
            base = r.choice(rules)
            tp = G.twin_path(r, base.path)
            rules.append(base.replace(path=tp) if tp is not None else base)
        else:
            rl = G.rule_for(r, d, mode="typed", cond_depth=2, max_len=3)
            if r.coin(40):
                sel = model.ref_select(rl.path.parts, d) if rl.path.parts else [(d, ())]
                if sel:
                    rl = rl.replace(cond=G.anchored_value_cond(r, r.choice(sel)[0], "typed", 1))
            rules.append(rl)
    perm_seeds = [[r.below(k + 1) for k in range(n)] for _ in range(12)] if n == 5 else []
    return d, SchemaT(rules), perm_seeds, G.twinned(r, d)


def _perm_from(seed):
    # Fisher-Yates driven by tape-drawn indices
    idx = list(range(len(seed)))
    for k in range(len(seed) - 1, 0, -1):
        j = seed[k] % (k + 1)
        idx[k], idx[j] = idx[j], idx[k]
    return tuple(idx)


def path_named(report, path):
    comps = [repr(k) for k in path]
    for line in report.splitlines():
        pos, ok = 0, True
        for c in comps:
            j = line.find(c, pos)
            if j < 0:
                ok = False
                break
            pos = j + len(c)
        if ok:
            return True
    return False


def expectations(schema, doc):
    per_rule = [model.ref_rule_test(rl, doc) for rl in schema.rules]
    return {
        "per_rule": per_rule,
        "valid": all(t["valid"] for t in per_rule),
        "nfail": sum(len(t["fails"]) for t in per_rule),
        "ntested": sum(1 for t in per_rule if t["tested"]),
        "pairs": sorted((i, tuple(exact(k) for k in p)) for i, t in enumerate(per_rule) for _, p in t["fails"]),
    }


def body(case):
    doc0, schema, perm_seeds, doc_twin = case
    out = Outcome()
    ns = build.ns()
    n = len(schema.rules)
    try:
        # a rule that the schema lists twice is, in half of the cases, ONE Rule object listed twice
        from ..terms import dumps
        share = len(repr(doc0)) % 2 == 0
        memo, robjs = {}, []
        for rl in schema.rules:
            k = dumps(rl)
            if share and k in memo:
                robjs.append(memo[k])
                out.label("one-rule-object-listed-twice")
            else:
                memo[k] = build.build_rule(rl)
                robjs.append(memo[k])
    except Exception as e:
        out.exc("build-rule", e)
        return out
    if n <= 4:
        perms = list(itertools.permutations(range(n)))
    else:
        perms = sorted(set([tuple(range(n))] + [_perm_from(s) for s in perm_seeds]))
    # the same Schema object validates the document and then its type-twin (== to it, not
    # type-exact): each must get its own judgement
    docs = [doc0, doc_twin]
    exps = [expectations(schema, d) for d in docs]
    e0 = exps[0]
    n_invalid = sum(1 for t in e0["per_rule"] if not t["valid"])
    out.nontrivial = n >= 2 and 0 < n_invalid < n and len(perms) >= 2
    out.label(f"rules:{n}", "valid" if e0["valid"] else "invalid")
    if exact(doc0) != exact(doc_twin) and (exps[0]["valid"], exps[0]["pairs"]) != (exps[1]["valid"], exps[1]["pairs"]):
        out.label("twin-document-judged-differently")
    out.evals = 0
    out.sample = f"{show(schema,450)} on {show(doc0,150)} -> valid={e0['valid']} nfail={e0['nfail']} perms={len(perms)}"
    ident = {}
    for i, o in enumerate(robjs):
        ident.setdefault(id(o), []).append(i)
    for pi in perms:
        out.evals += 1
        rules_pi = [robjs[i] for i in pi]
        try:
            # the rule list handed over as a list, a tuple or a one-shot iterator
            how = (len(pi) + sum(pi)) % 4 if pi else 0
            S = ns.s.Schema(tuple(rules_pi) if how == 1 else iter(list(rules_pi)) if how == 2 else list(rules_pi))
            order = sorted(range(n), key=lambda j: len(schema.rules[pi[j]].path.parts))
            exp_rules = [rules_pi[j] for j in order]
            if len(S.rules) != n or any(a is not b for a, b in zip(S.rules, exp_rules)):
                out.add("stable-order", "stable-order", f"perm {pi}: rules not the stable sort by path length")
        except Exception as e:
            out.exc("no-raise|schema", e)
            break
        vds = []
        for di, (doc, ex) in enumerate(zip(docs, exps)):
            which = "" if di == 0 else "|second-document"
            try:
                vd = S.validate(doc)
                vds.append(vd)
            except Exception as e:
                out.exc("no-raise|validate", e)
                break
            if di == 0:
                # between the validations the schema is asked for its documentation tree (whole, and below the first
                # part of some rule path; it may refuse - these schemas need not be prefix-closed): a description of
                # the rules, which leaves them as they are
                for fp in [None] + [list(r_.path.parts)[:1] for r_ in S.rules if len(r_.path.parts) >= 1][:2]:
                    try:
                        S.to_tree(nested=fp is not None, from_path=fp)
                    except Exception:
                        pass
            try:
                if vd.is_valid is not ex["valid"]:
                    out.add("conjunction", "conjunction" + which, f"perm {pi} doc {di}: is_valid={vd.is_valid!r} expected {ex['valid']}")
                if vd.num_failures != ex["nfail"]:
                    out.add("failure-sum", "failure-sum" + which, f"perm {pi} doc {di}: num_failures={vd.num_failures} expected {ex['nfail']}")
                if vd.num_rules_tested != ex["ntested"]:
                    out.add("tested-count", "tested-count" + which, f"perm {pi} doc {di}: num_rules_tested={vd.num_rules_tested} expected {ex['ntested']}")
                if len(vd.rule_tests) != n:
                    out.add("every-rule-applied", "every-rule-applied", f"perm {pi}: {len(vd.rule_tests)} rule tests for {n} rules")
                if n > 0 and vd.frac_rules_tested != ex["ntested"] / n:
                    out.add("tested-count", "frac-tested", f"perm {pi}: frac={vd.frac_rules_tested} expected {ex['ntested'] / n}")
                got_pairs = []
                used = {}
                for rt in vd.rule_tests:
                    cands = ident.get(id(rt.rule))
                    if cands is None:
                        out.add("every-rule-applied", "foreign-rule", f"perm {pi}: rule test for a rule not in the schema")
                        continue
                    k = used.get(id(rt.rule), 0)
                    used[id(rt.rule)] = k + 1
                    i = cands[min(k, len(cands) - 1)]
                    for f in rt.failures:
                        got_pairs.append((i, tuple(exact(x) for x in f.path)))
                if sorted(got_pairs) != ex["pairs"]:
                    out.add("failing-pairs", "failing-pairs" + which, f"perm {pi} doc {di}: (rule, failing path) pairs {sorted(got_pairs)!r} expected {ex['pairs']!r}"[:600])
                rep = vd.get_failures_string()
                if not isinstance(rep, str):
                    out.add("report-is-string", "report-is-string|" + ("valid" if ex["valid"] else "invalid"),
                            f"get_failures_string() returned {rep!r} (valid={ex['valid']})")
                elif ex["nfail"]:
                    for i, t in enumerate(ex["per_rule"]):
                        for _, p in t["fails"]:
                            if not path_named(rep, p):
                                out.add("report-names-paths", "report-names-paths", f"failing path {p!r} not named in report {rep!r}"[:600])
                                break
            except Exception as e:
                out.exc("no-raise|aggregates", e)
                break
        if out.violations:
            break
        # the FIRST result, read again after the same schema has validated the second document
        if len(vds) == 2:
            try:
                v0, e0_ = vds[0], exps[0]
                pairs0 = sorted(tuple(exact(x) for x in f.path) for rt in v0.rule_tests for f in rt.failures)
                if v0.is_valid is not e0_["valid"] or v0.num_failures != e0_["nfail"] or v0.num_rules_tested != e0_["ntested"] \
                        or pairs0 != sorted(p for _, p in e0_["pairs"]):
                    out.add("conjunction", "first-result-changed-by-second-validation",
                            f"perm {pi}: after validating a second document the first result reads valid={v0.is_valid} nfail={v0.num_failures}, expected {e0_['valid']} {e0_['nfail']}")
                    break
            except Exception as e:
                out.exc("no-raise|reread", e)
                break
    return out


def tests(tier):
    return [TestSpec("schema-perms", gen_case, body, {"quick": 1500, "thorough": 120000}, tape=2048, fuzz={"thorough": 15000}),
            edits.spec("schema", 1000, 80000)]
