"""C01 - a single condition filters every item to its documented meaning, never aborting."""
from ..runner import TestSpec, Outcome
from ..terms import Leaf, show
from .. import model, build, gen as G
from ..snapshot import exact
from . import edits

ID = "C01"
RULE = (
    "exhaustive over the 149 DSL-reachable leaf shapes (kind x pre-processor x callable); "
    "arguments of every JSON-like type and non-empty list/mapping documents are generated "
    "(arguments are drawn from the document's own items in ~40% of cases). A case is "
    "non-trivial when its item vector contains both a satisfied and an unsatisfied item, or "
    "at least one item for which the reference comparison is undefined; distinct = distinct "
    "hash of the (leaf, document) term."
)
ASSUMPTIONS = [
    "documents are non-empty lists/mappings of JSON/YAML-like values; NaN, inf and ints beyond 64 bit are not generated",
    "key-kind conditions filter mappings, index-kind conditions filter lists (the library rejects the other combinations by design)",
    "empty key lists for the lazily evaluated keys_contain_* / items_contain callables are not generated",
    "in_range / not_in_range integer bounds are kept small (the library evaluates `x in range(lo, hi)`)",
]


def gen_case(r, shape):
    kind, pre, name = shape
    if kind == "key":
        doc = G.map_doc(r)
    elif kind == "index":
        doc = G.list_doc(r)
    else:
        doc = G.doc(r)
    leaf = G.leaf_of_shape(r, shape, "any")
    if name in ("factor_of", "has_factor") and pre is None and kind == "value" and r.pct() < 25:
        # integer arithmetic beyond 2**53 (exact in Python, not in floating point)
        big = [2**53 + 1, 2**63 - 1, 2**62 + 2, -(2**63), 10**17 + 1, 2**53 + 2]
        small = [2, 3, 7, 2**31, 12]
        if isinstance(doc, list):
            doc.insert(r.below(len(doc) + 1), r.choice(big if name == "has_factor" else small))
        else:
            doc[r.choice(["big", "n"])] = r.choice(big if name == "has_factor" else small)
        leaf = leaf.replace(kwargs={"value": r.choice(small if name == "has_factor" else big)})
    if name in ("in_range", "not_in_range") and pre is None and kind == "value" and r.pct() < 15:
        # bounds up to 2**64 - 1 apart (membership of an INTEGER in a range is arithmetic, however wide it is);
        # the document holds integers only - for any other item the library walks the range
        big = [-(2**63), 2**63 - 1, -(2**63) + 1, 2**63 - 2, 0, 5, -(2**62)]  # (all within 64 bit)
        lo, hi = sorted([r.choice(big), r.choice(big)]) if r.coin(40) else (r.choice(big[:1] + big[2:3] + big[6:]), r.choice(big[1:2] + big[3:4]))
        items = [r.choice([5, 0, -1, 2**63 - 1, -(2**63), 2**63 - 2, 2**62, True, 12]) for _ in range(r.between(1, 4))]
        return Leaf(kind, pre, name, (), {"lower": lo, "upper": hi}), (items if r.coin() else {f"k{i}": v for i, v in enumerate(items)})
    if kind == "value" and pre is None and name in G.VARPOS_KEYS + G.N_OF + G.ONE_OF_KW and r.pct() < 8:
        # keys that an item really has, with an UNHASHABLE element among them (wherever it stands, counting the keys
        # the item contains is then undefined for a mapping item)
        present = [G.key(r) for _ in range(r.between(1, 2))]
        item = {k: G.scalar(r) for k in present}
        odd = r.choice([[1], {"a": 1}, [], [present[0]]])
        keys = list(present)
        keys.insert(r.below(len(keys) + 1), odd)
        if r.coin():
            keys.append(G.key(r))
        if isinstance(doc, list):
            doc.insert(r.below(len(doc) + 1), item)
        else:
            doc[r.choice(["it", "n"])] = item
        if name in G.VARPOS_KEYS:
            return Leaf(kind, pre, name, tuple(keys), {}), doc
        kw = {"keys": keys}
        if name in G.N_OF:
            kw = {"N": r.between(0, 2), "keys": keys}
        return Leaf(kind, pre, name, (), kw), doc
    if name == "items_contain" and pre is None and kind == "value" and r.pct() < 10:
        # an expected key that is spelled like a parameter name somewhere inside the library, present in an item
        kname = r.choice(["trial_dict", "value", "datum", "kwargs", "args", "data", "key"] + build.param_names())
        v = G.scalar(r)
        item = {kname: v, "other": 1} if r.coin() else {kname: v}
        if isinstance(doc, list):
            doc.insert(r.below(len(doc) + 1), item)
        else:
            doc[r.choice(["it", "n"])] = item
        return Leaf(kind, pre, name, (), {kname: v}), doc
    # document-guided arguments: take the argument from the document's own items
    if r.pct() < 40:
        items = model.items_of(doc)
        data = []
        for k, v in items:
            d = v if kind == "value" else k
            try:
                if pre == "length":
                    d = len(d)
                elif pre == "dtype":
                    d = type(d)
            except TypeError:
                continue
            data.append(d)
        if data:
            pick = r.choice(data)
            if name in G.EQS + G.ORDERINGS + ["equal_to_approx"] and "value" in leaf.kwargs:
                kw = dict(leaf.kwargs)
                kw["value"] = pick
                leaf = leaf.replace(kwargs=kw)
            elif name in ("in_", "not_in"):
                leaf = leaf.replace(kwargs={"value": [d for d in data if r.coin()]})
            elif name in G.VARPOS_KEYS + ["keys_contain"] + G.N_OF + G.ONE_OF_KW and isinstance(pick, dict) and pick:
                ks = list(pick.keys())
                sub = [k for k in ks if r.coin()] or ks[:1]
                if name != "keys_contain" and r.pct() < 25:
                    # an element of any type (possibly unhashable) somewhere among keys that are really present
                    sub.insert(r.below(len(sub) + 1), G.value(r, 1))
                if name == "keys_contain":
                    leaf = leaf.replace(kwargs={"key": sub[0]})
                elif name in G.VARPOS_KEYS:
                    leaf = leaf.replace(args=tuple(sub))
                else:
                    kw = dict(leaf.kwargs)
                    kw["keys"] = sub
                    leaf = leaf.replace(kwargs=kw)
            elif name == "items_contain" and isinstance(pick, dict):
                sk = [k for k in pick if isinstance(k, str)]
                if sk:
                    leaf = leaf.replace(kwargs={sk[0]: pick[sk[0]]})
    return leaf, doc


def body(case):
    leaf, doc = case
    out = Outcome()
    ns = build.ns()
    tag = f"{leaf.kind}.{leaf.pre or '-'}.{leaf.name}"
    out.label(f"shape:{tag}")
    items = model.items_of(doc)
    exp, undef = [], []
    for k, v in items:
        r, u = model.leaf_eval_ex(leaf, k, v)
        exp.append(r)
        undef.append(u)
    if any(undef):
        out.label("has-undefined-item")
        if leaf.name not in model.NEVER_UNDEFINED or leaf.pre == "length":
            out.label(f"undefined-met:{tag}")
    out.nontrivial = any(undef) or (any(exp) and not all(exp))
    if any(exp) and not all(exp):
        out.label("mixed-vector")
    out.sample = f"{show(leaf, 300)} on {show(doc, 200)} -> expected {exp}"

    try:
        cond = build.build_leaf(leaf)
    except Exception as e:
        out.exc("construct", e)
        return out
    try:
        res = cond.filter(doc)
        got = res.result
    except Exception as e:
        out.exc("never-aborting", e)
        return out
    if not (isinstance(got, list) and len(got) == len(items) and all(type(x) is bool for x in got)):
        out.add("one-bool-per-item", f"one-bool-per-item|{tag}", f"result={got!r} for {len(items)} items")
        return out
    if got != exp:
        out.add("documented-meaning", f"documented-meaning|{tag}", f"{leaf!r} on {show(doc,200)}: got {got}, expected {exp}")
        return out
    # partition
    try:
        sel_vals = [v for (k, v), e in zip(items, exp) if e]
        sel_keys = [k for (k, v), e in zip(items, exp) if e]
        fails = [i for i, e in enumerate(exp) if not e]
        if [exact(x) for x in res.data] != [exact(x) for x in sel_vals]:
            out.add("partition", f"partition-data|{leaf.kind}", f"data={res.data!r} expected {sel_vals!r}")
        if [exact(x) for x in res.keys] != [exact(x) for x in sel_keys]:
            out.add("partition", f"partition-keys|{leaf.kind}", f"keys={res.keys!r} expected {sel_keys!r}")
        if list(res.failure_indices) != fails:
            out.add("partition", f"partition-failidx|{leaf.kind}", f"failure_indices={res.failure_indices!r} expected {fails!r}")
    except Exception as e:
        out.exc("partition", e)
    # entry points
    try:
        r2 = cond.filter(ns.da.Data(doc)).result
        r3 = ns.da.Data(doc).filter(cond).result
        if r2 != exp or r3 != exp:
            out.add("entry-points", f"entry-points|Data|{leaf.kind}", f"filter(Data)={r2} Data.filter={r3} expected {exp}")
        ta = cond.test_all(doc)
        if ta is not all(exp):
            out.add("entry-points", f"entry-points|test_all|{leaf.kind}", f"test_all={ta!r} expected {all(exp)}")
        if leaf.kind == "value":
            for (k, v), e in zip(items, exp):
                t = cond.test(v)
                if t is not e:
                    out.add("entry-points", f"entry-points|test|{tag}", f"test({v!r})={t!r} expected {e}")
                    break
        elif leaf.kind == "key":
            for (k, v), e in zip(items, exp):
                t = cond.test({k: v})
                if t is not e:
                    out.add("entry-points", f"entry-points|test|{tag}", f"test({{{k!r}: ...}})={t!r} expected {e}")
                    break
    except Exception as e:
        out.exc("entry-points", e)
    return out


TWIN_POOL = [1, True, 1.0, 0, False, 0.0, 2, 2.0, "1", "0", "", None, -1, -1.0]


def gen_twins(r):
    """Containers holding scalars that compare equal but differ in type (1 / True / 1.0,
    0 / False / 0.0, 2 / 2.0) x the type-sensitive leaves: every item must still get its
    own boolean."""
    vals = [r.choice(TWIN_POOL) for _ in range(r.between(2, 7))]
    doc = vals if r.coin(60) else {f"k{i}": v for i, v in enumerate(vals)}
    c = r.pct()
    if c < 55:
        leaf = Leaf("value", None, "is_instance", args=tuple(r.subset([bool, int, float, str, type(None)], 1, 2)))
    elif c < 75:
        leaf = Leaf("value", "dtype", r.choice(["equal_to", "not_equal_to"]), kwargs={"value": r.choice([bool, int, float, str])})
    elif c < 90:
        leaf = Leaf("value", "dtype", r.choice(["in_", "not_in"]), kwargs={"value": r.subset([bool, int, float, str], 1, 2)})
    else:
        leaf = G.leaf(r, ("value",), "typed")
    return leaf, doc


def gen_named(r, kname):
    """items_contain with ONE given expected key - enumerated over the parameter names found in the library's own callables
    (read from the tree under test) and a few more: every keyword names an expected item, whatever it is called."""
    v = G.scalar(r)
    items = [{kname: v}, {kname: v, "other": 1}, {"other": 1}, {kname: G.scalar(r)}, 5, {}]
    doc = [r.choice(items) for _ in range(r.between(1, 4))]
    if r.coin():
        doc = {f"k{i}": x for i, x in enumerate(doc)}
    kw = {kname: v}
    if r.coin(30):
        kw["other"] = 1
    return Leaf("value", None, "items_contain", (), kw), doc


def named_factors():
    return sorted(set(["trial_dict", "value", "datum", "kwargs", "args", "data", "key", "items", "shared_data", "source_data"] + build.param_names()))


def tests(tier):
    return [
        TestSpec("items-contain-names", gen_named, body, {"quick": 8, "thorough": 2000}, factors=named_factors(), tape=256),
        TestSpec(
            "leaf-filter",
            gen_case,
            body,
            {"quick": 60, "thorough": 30000},
            factors=model.leaf_shapes(),
            fuzz={"thorough": 60000},
        ),
        TestSpec("type-twins", gen_twins, body, {"quick": 600, "thorough": 60000}, tape=256, fuzz={"thorough": 40000}),
        edits.spec("filter", 1200, 100000),
    ]
