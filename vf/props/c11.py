"""C11 - conditions survive the JSON-like round trip."""
import copy
import json
import warnings

from ..runner import TestSpec, Outcome
from ..terms import Null, Leaf, Op, PathT, Prim, show, depth, leaves
from .. import model, build, gen as G, spec as SP
from ..snapshot import exact
from . import c09

ID = "C11"
RULE = (
    "exhaustive over the leaf shapes of the meaningful DSL (all callables on value/key/index; length pre-processor with "
    "numeric comparisons; type pre-processor with equality and membership) x JSON-representable arguments (str-keyed "
    "mappings, lists, finite numbers), type objects from the library's table, data paths (concrete / non-concrete, with "
    "modifiers, conditioned parts) and literal mappings whose keys look like path specs ('path', 'path.length', "
    "'\\\\path', 'PATH', alone / beside other keys / one level down in list and mapping arguments); 40% of cases nest "
    "the leaf in and/or/xor combinations up to depth 4. Oracle: to_json_like() is pure JSON (json round trip "
    "type-exact), from_json_like() gives an equal condition (both directions) that filters identically on 2 probe "
    "documents (also vs the reference model), and re-serialising gives the same data. Non-trivial: a leaf other than "
    "the 7 the suite round-trips, or a combination of depth>=2, or a path / type / path-looking-literal argument."
)
ASSUMPTIONS = [
    "arguments are JSON-representable (no tuples, no non-string mapping keys, finite floats), type objects int/float/str/list/dict/bool, or data paths",
]

SUITE_LEAVES = {("value", None, "equal_to"), ("value", "length", "equal_to"), ("value", "dtype", "equal_to"),
                ("key", None, "equal_to"), ("index", None, "equal_to"), ("value", None, "null"), ("value", None, "truthy")}
SHAPES = G.shapes_for(("value", "key", "index"), meaningful=True)

PATHY_KEYS = ["path", "path.length", "\\path", "PATH", "Path.first", "xpath", "a\\path", "path.first.length", "\\PATH",
              "path.xpath", "pathpath", "a\\pathpath", "cfg.\\path", "dir.d\\path\\file", " path", "path ", "Path\t.len", "path\\path", "path_of_path"]


def pathy_literal(r):
    d = {}
    if r.pct() < 30:
        d[r.choice(["b", "a", "z z"])] = G.json_value(r, 0)  # a plain key FIRST, the path-looking key after it
    d[r.choice(PATHY_KEYS)] = G.json_value(r, 1) if r.pct() < 85 else r.choice([{"path": ["a"]}, {"\\path": 1}, {"path.length": ["a", 0]}])
    if r.coin(40):
        d[r.choice(["b", "path", "\\path.x", "PATH"])] = G.json_value(r, 0)
    return d


def special_arg(r):
    c = r.pct()
    if c < 6:
        # a zero-part path (the whole document), with a datum modifier
        return PathT([], r.choice(["length", "dtype", None]))
    if c < 50:
        return c09.small_path(r, jsonable=True)
    if c < 62:
        # a path-looking mapping two or more levels down: neither escaped nor un-escaped there
        inner = pathy_literal(r)
        return r.choice([{"src": {"file": inner}}, [[inner]], {"a": [inner, 1]}, [{"k": inner}]])
    return pathy_literal(r)


def gen_case(r, shape):
    kind, pre, name = shape
    leaf = G.leaf_of_shape(r, shape, "typed", jsonable=True)
    special = False
    sg = SP.SIG_OF[name]
    if pre is None and name in c09.PATHABLE and r.pct() < 35:
        special = True
        if sg == "single":
            k = next(iter(leaf.kwargs))
            c = r.pct()
            if c < 12:
                # ONE path-looking literal mapping object at two places of the argument
                m = pathy_literal(r)
                v = [m, m] if r.coin() else {"x": m, "y": m, "z": 0}
            elif c < 50:
                v = special_arg(r)
            elif c < 75:
                v = [special_arg(r) if r.coin() else G.json_value(r, 0) for _ in range(r.between(1, 3))]
            else:
                v = {kk: (special_arg(r) if r.coin() else G.json_value(r, 0)) for kk in r.subset(["a", "b", "c"], 1, 2)}
                v["z"] = 0
            leaf = leaf.replace(kwargs={k: v})
        elif sg == "multi":
            kw = dict(leaf.kwargs)
            kw[r.choice(list(kw))] = special_arg(r)
            leaf = leaf.replace(kwargs=kw)
        elif sg == "varpos":
            args = list(leaf.args)
            args[r.below(len(args))] = special_arg(r)
            leaf = leaf.replace(args=tuple(args))
        elif sg == "varkw":
            kw = dict(leaf.kwargs)
            if r.coin(40):
                # keyword NAMES that make the keyword mapping itself look like a path spec (or an escaped one)
                k0 = r.choice(list(kw))
                v0 = kw.pop(k0)
                if r.coin():
                    kw = {}  # a single keyword
                kw[r.choice(["path", "path.first", "Path", "PATH.length", "cfg\\path", "\\path", "\\Path.x", "path.nope"])] = v0
            elif r.coin(25):
                m = pathy_literal(r)
                kw = {"k": m, "l": m}  # one literal mapping object under two keywords
            else:
                kw[r.choice(list(kw))] = special_arg(r)
            leaf = leaf.replace(kwargs=kw)
    t = leaf
    kinds = {kind}
    if r.pct() < 40:
        other = ("value", "key") if kind == "key" else ("value", "index") if kind == "index" else (("value",) if r.coin() else r.choice([("value", "key"), ("value", "index")]))
        for _ in range(r.between(1, 3)):
            o = G.tree(r, other, "typed", depth=r.between(0, 2), null_p=0, meaningful=True, jsonable=True)
            t = Op(r.choice(["and", "or", "xor"]), t, o) if r.coin() else Op(r.choice(["and", "or", "xor"]), o, t)
        kinds |= set(other)
    return t, c09.probes_for(r, kinds), special


def has_paths(t):
    def any_path(a, d=0):
        if isinstance(a, PathT):
            return True
        if d == 0 and isinstance(a, list):
            return any(any_path(x, 1) for x in a)
        if d == 0 and isinstance(a, dict):
            return any(any_path(x, 1) for x in a.values())
        return False

    return any(any_path(a) for l in leaves(t) for a in list(l.args) + list(l.kwargs.values()))


def det_twin(t):
    """`t` with every numeric primitive part of its data-path arguments replaced by an equal-valued, differently-typed
    twin (1 <-> 1.0, True -> 1 ...), or None when there is none.  No random choice: the first twin listed."""
    changed = [False]

    def tw(v):
        if isinstance(v, (bool, int, float)) and not isinstance(v, str) and v in G.TWINS:
            opts = [x for x in G.TWINS[v] if type(x) is not type(v) and isinstance(x, (int, float)) and not isinstance(x, bool)]
            if opts:
                changed[0] = True
                return opts[0]
        return v

    def arg(a):
        if isinstance(a, PathT):
            return a.replace(parts=[Prim(tw(p.v)) if isinstance(p, Prim) else p for p in a.parts])
        return a

    def rec(x):
        if isinstance(x, Op):
            return Op(x.op, rec(x.l), rec(x.r))
        if isinstance(x, Leaf):
            return x.replace(args=tuple(arg(a) for a in x.args), kwargs={k: arg(v) for k, v in x.kwargs.items()})
        return x

    out = rec(t)
    return out if changed[0] else None


def scramble(x, depth=0):
    """The caller edits the JSON-like form it was handed, in place, at every nesting level below the top."""
    if isinstance(x, dict):
        for v in list(x.values()):
            scramble(v, depth + 1)
        if depth >= 1:
            x["<caller>"] = ["<caller>"]
    elif isinstance(x, list):
        for v in x:
            scramble(v, depth + 1)
        if depth >= 1:
            x.append("<caller>")


def body(case):
    t, probes, special = case
    out = Outcome()
    ns = build.ns()
    ls = leaves(t)
    l0 = ls[0]
    typed_arg = any(l.pre == "dtype" or l.name in ("is_instance", "keys_is_instance") for l in ls)
    out.nontrivial = (
        any((l.kind, l.pre, l.name) not in SUITE_LEAVES for l in ls) or depth(t) >= 2 or special or typed_arg
    )
    if special:
        out.label("special-arg")
    if depth(t) >= 2:
        out.label("depth>=2")
    out.sample = show(t, 500)
    tag = "special" if special else ("nested" if isinstance(t, Op) else f"{l0.kind}.{l0.pre or '-'}.{l0.name}")
    try:
        c = build.build_cond(t)
    except Exception as e:
        out.exc("build-dsl", e)
        return out
    if has_paths(t):
        # a data-path argument whose own serialisation refuses (allowed by C12) is outside the fragment
        def path_objs(x, dpt=0):
            if type(x).__name__ == "DataPath":
                yield x
            elif dpt == 0 and isinstance(x, (list, tuple)):
                for i in x:
                    yield from path_objs(i, 1)
            elif dpt == 0 and isinstance(x, dict):
                for i in x.values():
                    yield from path_objs(i, 1)

        def leaf_objs(cnd):
            if hasattr(cnd, "children"):
                for ch in cnd.children:
                    yield from leaf_objs(ch)
            else:
                yield cnd

        try:
            for lo in leaf_objs(c):
                for a in list(lo.callable.args) + list(lo.callable.kwargs.values()):
                    for po in path_objs(a):
                        try:
                            po.to_part_specs()
                        except Exception:
                            out.label("path-serialisation-refused-skipped")
                            out.nontrivial = False
                            return out
        except AttributeError:
            pass
    # before the round trip proper: (1) the type-twin of the condition (path arguments keyed 1.0 instead of 1 ...) makes
    # the trip first - what comes back for THIS condition must not depend on it; (2) the condition is serialised once
    # and the caller edits the structure it was handed - the condition itself keeps its meaning (checked below against
    # a freshly built copy and the reference)
    tw = det_twin(t)
    if tw is not None:
        out.label("type-twin-first")
        try:
            with warnings.catch_warnings():
                warnings.simplefilter("ignore")
                ctw = build.build_cond(tw)
                ctw2 = ns.c.ConditionLike.from_json_like(json.loads(json.dumps(ctw.to_json_like())))
            if not ((ctw2 == ctw) is True):
                out.add("rebuilt-equal", "rebuilt-equal|type-twin", f"{show(ctw,250)} -> {show(ctw2,250)}")
                return out
        except Exception:
            out.label("type-twin-refused")
    try:
        scramble(c.to_json_like())
        fresh = build.build_cond(t)
        if not ((c == fresh) is True and (fresh == c) is True):
            out.add("rebuilt-equal", "serialised-form-is-the-callers", f"after the caller edited the JSON-like form it was handed, the condition is {show(c,250)}, built as {show(fresh,250)}")
            return out
    except Exception as e:
        out.exc("serialise", e)
        return out
    try:
        js = c.to_json_like()
    except Exception as e:
        out.exc("serialise", e)
        return out
    try:
        text = json.dumps(js)
        back = json.loads(text)
    except Exception as e:
        out.add("pure-json", f"pure-json|dumps|{tag}", f"json.dumps failed on {show(js,300)}: {e!r}")
        return out
    if exact(back) != exact(js):
        out.add("pure-json", f"pure-json|changed|{tag}", f"{show(js,300)} does not survive JSON: {show(back,300)}")
        return out
    try:
        with warnings.catch_warnings():
            warnings.simplefilter("ignore")
            c2 = ns.c.ConditionLike.from_json_like(copy.deepcopy(back))
    except Exception as e:
        out.exc("rebuild", e)
        return out
    try:
        e1, e2 = c2 == c, c == c2
    except Exception as e:
        out.exc("equality", e)
        return out
    if not (e1 is True and e2 is True):
        out.add("rebuilt-equal", f"rebuilt-equal|{tag}", f"{show(c,250)} -> {show(js,250)} -> {show(c2,250)}")
        return out
    use_model = not has_paths(t)
    for pd in probes:
        try:
            a, b = c.filter(pd).result, c2.filter(pd).result
        except Exception as e:
            out.exc("filter", e)
            return out
        if a != b or (use_model and a != model.ref_filter(t, pd)):
            out.add("filters-identically", f"filters-identically|{tag}", f"{show(t,250)} on {show(pd,150)}: original {a} rebuilt {b}")
            return out
    try:
        js2 = c2.to_json_like()
    except Exception as e:
        out.exc("reserialise", e)
        return out
    if exact(js2) != exact(js):
        out.add("same-data-again", f"same-data-again|{tag}", f"{show(js,250)} then {show(js2,250)}")
    return out


# ------------------------------------------------------------------ arguments the caller still holds
def gen_owned(r):
    kind = r.choice(["value", "value", "key"])
    name = r.choice(["in_", "not_in", "equal_to", "not_equal_to"])
    if name in ("in_", "not_in") or r.coin():
        arg = [G.json_value(r, 0) for _ in range(r.between(1, 4))]
        new = G.json_value(r, 0)
        edit = ("append", new)
    else:
        arg = {r.choice(["a", "b", "kind"]): G.json_value(r, 0) for _ in range(r.between(1, 2))}
        edit = ("set", r.choice(["a", "z"]), G.json_value(r, 0))
    probes = c09.probes_for(r, {kind})
    # probes that hold the old and the new argument, so that the difference shows
    extra = [copy.deepcopy(arg), 0]
    return kind, name, arg, edit, probes, r.coin()


def apply_owned(arg, edit):
    if edit[0] == "append":
        arg.append(copy.deepcopy(edit[1]))
    else:
        arg[edit[1]] = copy.deepcopy(edit[2])


def body_owned(case):
    """The caller builds a condition from a list / mapping it keeps, serialises the condition, then changes its own
    list / mapping.  Whether the condition follows that change is nowhere stated (the DSL keeps a reference); whatever
    the condition now means, its serialised form means the same: the rebuilt condition equals it and filters like it."""
    kind, name, arg0, edit, probes, in_combination = case
    out = Outcome()
    ns = build.ns()
    out.nontrivial = True
    out.label(f"owned:{name}:{type(arg0).__name__}")
    arg = copy.deepcopy(arg0)
    out.sample = f"{kind}.{name}({show(arg,150)}), serialised, then the caller's own argument gets {show(edit,100)}"
    cls = {"value": ns.c.Value, "key": ns.c.Key}[kind]
    try:
        leaf = getattr(cls, name)(arg)
        c = (leaf | ns.c.Value.null()) if in_combination else leaf
        c.to_json_like()
        apply_owned(arg, edit)
        js = c.to_json_like()
        with warnings.catch_warnings():
            warnings.simplefilter("ignore")
            c2 = ns.c.ConditionLike.from_json_like(json.loads(json.dumps(js)))
    except Exception as e:
        out.exc("owned-roundtrip", e)
        return out
    try:
        if not ((c2 == c) is True and (c == c2) is True):
            out.add("rebuilt-equal", "rebuilt-equal|caller-held-argument", f"{show(c,200)} serialises to {show(js,200)}, rebuilt {show(c2,200)}")
            return out
        new_arg = copy.deepcopy(arg0)
        apply_owned(new_arg, edit)
        witnesses = [list(arg0) + list(new_arg) if isinstance(arg0, list) else [arg0, new_arg]]
        if kind == "key":
            witnesses = [{k: 1 for k in w if isinstance(k, (str, int, float, bool)) or k is None} or {"a": 1} for w in witnesses]
        for pd in list(probes) + witnesses:
            if not isinstance(pd, (list, dict)) or not pd:
                continue
            a, b = c.filter(pd).result, c2.filter(pd).result
            if a != b:
                out.add("filters-identically", "filters-identically|caller-held-argument", f"{show(c,200)} on {show(pd,150)}: original {a} rebuilt {b}")
                return out
    except Exception as e:
        out.exc("owned-compare", e)
    return out


def tests(tier):
    return [TestSpec("caller-held-arguments", gen_owned, body_owned, {"quick": 1500, "thorough": 100000}, tape=768),
            TestSpec("roundtrip", gen_case, body, {"quick": 40, "thorough": 24000}, factors=SHAPES, tape=1024, fuzz={"thorough": 60000})]
