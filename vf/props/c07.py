"""C07 - validation never raises because of what the document contains."""
from ..runner import TestSpec, Outcome
from ..terms import SchemaT, show, leaves
from .. import model, build, gen as G

ID = "C07"
RULE = (
    "schemas of 1-4 value-kind rules over the full callable set (plain, length and dtype pre-processed) with "
    "WELL-TYPED, non-degenerate arguments, casts in {none, str->bool, str->int} (45% of rules), every path shape "
    "(empty path, str/int/float/bool keys, None keys through map parts, list indices, fan-out), on hostile documents "
    "(zeros, None, %-format strings incl. %c with divisors on both sides of chr()'s range, empty containers, missing branches, uncastable strings, castable strings inside lists "
    "and under non-string keys). Oracle: Schema.validate and Rule.test return result objects (is_valid bool, "
    "num_failures int, failure report a str); any escaping exception is a violation bucketed by (type, innermost "
    "valida frame). Non-trivial: the reference says at least one selected node is undefined for the rule's comparison "
    "or is a string its declared cast cannot convert; distinct by hash of the (document, schema) term."
)
ASSUMPTIONS = [
    "condition arguments are of the kinds the conditions expect (numbers for orderings, non-zero divisors, type objects for dtype/is_instance, hashable keys, >=1 key)",
    "documents are non-empty lists/mappings",
]


def gen_case(r):
    d = G.hostile_doc(r, 4 if r.coin(50) else 3)
    if r.pct() < 1:
        # a mapping (or list) of a thousand and more items, with rule paths through keys it has and keys it lacks
        from ..terms import RuleT, PathT, Prim, Leaf, Part
        n_ = r.choice([1023, 1024, 1025, 1100])
        vals = G.fill(r, n_, G.hostile_scalar)
        big = {f"k{i}": v for i, v in enumerate(vals)} if r.coin(70) else vals
        d = {"big": big, "small": {"k1": "true"}} if r.coin() else big
        pre = [Prim("big")] if isinstance(d, dict) and "big" in d else []
        keys = ["k1", "absent", "k1024", 5, 2000, 2.5]
        rules = [RuleT(PathT(pre + [Prim(r.choice(keys))] + ([Prim("size")] if r.coin(30) else [])),
                       G.tree(r, ("value",), "typed", 1), r.choice([None, "bool", "int"])) for _ in range(r.between(1, 3))]
        rules.append(RuleT(PathT(pre + [Part(r.choice(["map", "list", "mol"]))]), G.tree(r, ("value",), "typed", 1)))
        return d, SchemaT(rules), r.coin()
    n = r.between(1, 4)
    rules = []
    for _ in range(n):
        rl = G.rule_for(r, d, mode="typed", cast_p=45, cond_depth=2, max_len=4)
        if rl.cast and r.coin(15):
            rl = rl.replace(path=rl.path.replace(parts=[]))  # cast declared on the empty path
        if r.pct() < 12:
            # a comparison against a data-path argument whose modifiers may not apply to what the path finds in this
            # document (length of a number, map keys of a list, `single` with several matches, a missing node)
            from . import c17
            from ..terms import PathT, Leaf, Op

            def any_mods(t):
                if isinstance(t, Op):
                    return Op(t.op, any_mods(t.l), any_mods(t.r))
                if isinstance(t, Leaf):
                    fix = lambda a: (a.replace(datum=r.choice([None, "length", "dtype", "map_keys", "map_values"]),
                                               multi=(None if model.is_concrete(a.parts) else r.choice([None, "first", "last", "single", "all"])))
                                     if isinstance(a, PathT) and r.coin(70) else a)
                    return t.replace(args=tuple(fix(a) for a in t.args), kwargs={k: fix(v) for k, v in t.kwargs.items()})
                return t

            rl = rl.replace(cond=any_mods(c17.gen_leaf_with_paths(r, d)), cast=None)
        rules.append(rl)
    return d, SchemaT(rules), r.coin()


def classify(schema, doc):
    undefined = uncastable = False
    for rl in schema.rules:
        if model.has_path_args(rl.cond):
            continue
        sel = model.ref_select(rl.path.parts, doc) if rl.path.parts else [(doc, ())]
        for v, _ in sel:
            if model.tree_undefined(rl.cond, None, v):
                undefined = True
            if rl.cast and isinstance(v, str) and not model.cast_value(rl.cast, v)[0]:
                uncastable = True
    return undefined, uncastable


def vary(x):
    """A document of another shape over the same keys: at every level the last item is dropped and lists are reversed."""
    if isinstance(x, dict):
        ks = list(x)
        if len(ks) >= 2:
            ks = ks[:-1]
        return {k: vary(x[k]) for k in ks}
    if isinstance(x, list):
        xs = x[:-1] if len(x) >= 2 else x
        return [vary(v) for v in reversed(xs)]
    return x


def body(case):
    doc, schema, wrap = case
    out = Outcome()
    ns = build.ns()
    undefined, uncastable = classify(schema, doc)
    out.nontrivial = undefined or uncastable
    if undefined:
        out.label("undefined-comparison-met")
    if uncastable:
        out.label("uncastable-string-met")
    if any(model.has_path_args(rl.cond) for rl in schema.rules):
        out.label("path-argument-rule")
        out.nontrivial = True
    for rl in schema.rules:
        out.label(f"cast:{rl.cast}")
        for l in leaves(rl.cond):
            out.label(f"callable:{l.pre or '-'}.{l.name}")
    out.sample = f"{show(schema,450)} on {show(doc,200)}"
    try:
        sobj = build.build_schema(schema)
    except Exception as e:
        out.exc("build-schema", e)
        return out
    # the same schema has validated a document of another shape before, and that result was thrown away
    try:
        sobj.validate(vary(doc))
        sobj.validate(vary(vary(doc)))
    except Exception as e:
        out.exc("validate-raised|earlier-document", e)
        return out
    data = ns.da.Data(doc) if wrap else doc
    try:
        vd = sobj.validate(data)
        if not isinstance(vd.is_valid, bool) or not isinstance(vd.num_failures, int):
            out.add("result-object", "result-object|validate", f"is_valid={vd.is_valid!r} num_failures={vd.num_failures!r}")
        rep = vd.get_failures_string()
        if not isinstance(rep, str):
            out.add("result-object", "result-object|report", f"report={rep!r}")
    except Exception as e:
        out.exc("validate-raised", e)
    for robj in sobj.rules:
        try:
            rt = robj.test(data)
            if not isinstance(rt.is_valid, bool) or not isinstance(rt.num_failures, int):
                out.add("result-object", "result-object|rule-test", f"is_valid={rt.is_valid!r}")
            rt.get_failures_string()
        except Exception as e:
            out.exc("rule-test-raised", e)
            break
    return out


def tests(tier):
    return [TestSpec("never-raises", gen_case, body, {"quick": 5000, "thorough": 500000}, tape=2048, fuzz={"thorough": 60000})]
