"""C19 - malformed specs are rejected with spec errors, never internal ones."""
import copy
import io
import warnings

from ..runner import TestSpec, Outcome
from ..terms import Null, Leaf, Op, Prim, Part, PathT, RuleT, SchemaT, show
from .. import model, build, gen as G, spec as SP
from ..snapshot import exact

ID = "C19"
RULE = (
    "Tier A (definite errors must be rejected): from a well-formed spec of any class exactly one error of an ENUMERATED "
    "catalogue is injected - unknown datum kind; unknown / inapplicable pre-processor; unknown callable (typos, callables "
    "of another family, every lower-case non-callable attribute name of the condition classes: flatten, filter, from_spec, "
    "test, is_like, to_json_like, ...); unknown type name; unknown path suffix (identifiers and other DataPath attribute "
    "names: simplify, to_part_specs, to_spec, parts, from_str, ...); unknown part type; unknown / unsupported cast type; "
    "unknown part argument, index on a map part, key on a list part; wrong arity; wrong argument shape; two keys where "
    "one is required; missing path / condition. Oracle: the parser raises a Malformed* error, TypeError, ValueError or "
    "KeyError(<missing field>); acceptance or any other exception is a violation. Every catalogue class is enumerated "
    "(factor). Tier B (arbitrary structural mutation must be handled cleanly): 1-4 mutation steps (replace a sub-tree by "
    "any JSON-like value, rename / delete / add keys incl. non-string keys, wrap in a list, change case or dots of a "
    "string, insert / drop list items) on a well-formed spec, passed to ConditionLike / ContainerValue / DataPath / Rule "
    ".from_spec and Schema.from_yaml; accepted, or rejected with a listed type. Non-trivial: Tier A every case; Tier B a "
    "mutated spec that is accepted or is rejected below the parser's entry function (>=2 valida frames)."
)
ASSUMPTIONS = [
    "a no-argument callable given an argument is not an error (documented: warns and ignores)",
    "the suffix 'any' is a declared multiplicity type and is not treated as malformed",
    "KeyError('path'|'condition'|'rules') counts as naming the missing field",
    "YAML syntax errors belong to the YAML library; only texts ruamel dumps are used",
]

COND_ATTRS = ["flatten", "filter", "from_spec", "from_json_like", "test", "test_all", "is_like", "to_json_like",
              "_filter", "_members", "is_null", "is_key_like", "is_value_like", "is_index_like", "js_like_label",
              "get_always_applicable_key_conditions", "get_always_applicable_type_like_conditions", "__init__",
              "__eq__", "__repr__", "__and__", "__class__", "__doc__", "__dict__", "__module__", "mro", "callable"]
PATH_ATTRS = ["simplify", "to_part_specs", "to_spec", "to_json_like", "parts", "is_concrete", "from_str", "from_spec",
              "from_part_specs", "get_data", "resolve_implicit_types", "source_data", "_copy_with_datum_type",
              "is_spec_like", "escape_spec_like", "__len__", "__repr__", "__class__", "foo", "lenght", "firstt", "keys"]
TYPOS = ["equal_too", "eqq", "less", "greater_than_", "in__", "keys", "contains", "truth", "isinstance", "not", "",
         "falſy", "leß_than", "iſ_instance", "keyſ_contain", "ı̇n", "ﬁlter", "truthy\u200b"]

CATALOGUE = [
    "unknown-datum", "unknown-preproc", "inapplicable-preproc", "typo-callable", "other-family-callable",
    "attribute-as-callable", "unknown-type-name", "unknown-path-suffix", "attribute-as-path-suffix",
    "too-many-path-tokens", "unknown-part-type", "unknown-cast-type", "unsupported-cast-pair",
    "unknown-part-argument", "index-on-map-part", "key-on-list-part", "arity-too-few", "arity-too-many",
    "arity-unknown-keyword", "shape-scalar-for-multi", "shape-nonlist-for-varpos", "shape-nonlist-for-binop",
    "shape-nonmapping-for-varkw", "two-keys-condition", "two-keys-path", "missing-path", "missing-condition",
    "non-mapping-condition", "binop-item-malformed", "cast-not-mapping", "doc-items-not-strings",
    # a malformed sub-spec in a place whose content the object built does not use: still a malformed spec
    "malformed-in-unused-place",
]


def wellformed_cond(r, names=None, kinds=("value",)):
    return G.leaf(r, kinds, "typed", meaningful=True, names=names)


def wrap(r, cls, spec, inner_cls=None):
    """Place a malformed condition / path spec inside a larger structure at random, so
    that every entry point sees every error class."""
    return cls, spec


def gen_a(r, klass):
    """-> (entry, malformed spec)"""
    d = G.doc(r, 2)
    sp = SP.Spelling(r)
    nest = r.pct()

    def place_cond(cspec):
        # directly, inside an and/or/xor list, inside a part, inside a rule
        if nest < 40:
            return "cond", cspec
        if nest < 55:
            other = SP.cond_spec(wellformed_cond(r), sp)
            return "cond", {r.choice(["and", "or", "xor"]): [other, cspec] if r.coin() else [cspec, other]}
        if nest < 70:
            return "part", {"type": "map_value", "value": cspec}
        if nest < 80:
            return "path", {"path": ["a", {"type": "list_value", "value": cspec}]}
        return "rule", {"path": ["a"], "condition": cspec}

    def place_path(pspec):
        # only DataPath.from_spec itself: as a condition ARGUMENT a mapping that is not a
        # valid path spec is, by design, a literal mapping (not malformed)
        return "path", pspec

    def place_part(pspec):
        if nest < 35:
            return "part", pspec
        if nest < 60:
            return "path", {"path": ["a", pspec]}
        if nest < 80:
            return "rule", {"path": [pspec], "condition": {"value.truthy": None}}
        # inside a path given as a condition argument (a well-formed path spec key with a
        # malformed part below it)
        c2 = r.pct()
        if c2 < 40:
            return "cond", {"value.equal_to": {"path": ["a", pspec]}}
        if c2 < 70:
            return "cond", {"value.in_range": {"lower": {"path.length": [pspec]}, "upper": 5}}
        return "rule", {"path": ["a"], "condition": {"value.in": [1, {"path.first": [pspec, "b"]}]}}

    leaf = wellformed_cond(r)
    ls = SP.leaf_spec(leaf, sp)
    k0, v0 = next(iter(ls.items()))
    toks = k0.split(".")
    if klass == "unknown-datum":
        if r.pct() < 30:
            # an operator name used as a datum kind: 'and.in', 'or.length.equal_to' ...
            other = SP.cond_spec(wellformed_cond(r), sp)
            arg = r.choice([[], [{}, {}], [other], [other, ls], None, 1])
            return place_cond({r.choice(["and", "or", "xor"]) + "." + ".".join(toks[1:]): arg})
        toks[0] = r.choice(["foo", "values", "val", "keys", "idx", "valu", "path", ""])
        return place_cond({".".join(toks): v0})
    if klass == "unknown-preproc":
        name = toks[-1]
        return place_cond({f"{toks[0]}.{r.choice(['foo', 'size', 'lenght', 'typ', 'callable', 'filter', ''])}.{name}": v0})
    if klass == "inapplicable-preproc":
        return place_cond({f"index.{r.choice(['length', 'len', 'dtype', 'type'])}.{r.choice(['eq', 'equal_to', 'lt'])}": 1})
    if klass == "typo-callable":
        toks[-1] = r.choice(TYPOS)
        return place_cond({".".join(toks): v0})
    if klass == "other-family-callable":
        c = r.pct()
        mapc = r.choice(model.MAPC)
        if c < 40:
            return place_cond({f"index.{mapc}": ["a"]})
        if c < 70:
            return place_cond({f"value.{r.choice(['length', 'dtype'])}.{mapc}": ["a"]})
        return place_cond({f"key.{r.choice(['length', 'type'])}.{mapc}": ["a"]})
    if klass == "attribute-as-callable":
        a = r.choice(COND_ATTRS)
        pre = r.choice(["", "", "length.", "dtype."])
        kind = r.choice(["value", "key", "index"]) if not pre else r.choice(["value", "key"])
        val = r.choice([None, 1, "int", [1], ["a", "b"], {"a": 1}, [], {}])
        if pre == "dtype.":
            val = r.choice(["int", ["int", "str"], None])
        return place_cond({f"{kind}.{pre}{sp.rcase(a)}": val})
    if klass == "unknown-type-name":
        bad = r.choice(["foo", "integer", "string", "none", "nonetype", "", "tuple", "number", 3, None, 2.5, "ſtr", "ﬂoat", "İnt", "lıst"])
        c = r.pct()
        if c < 35:
            return place_cond({f"value.{r.choice(['dtype', 'type'])}.{r.choice(['equal_to', 'eq', 'in'])}": bad if r.coin() else [bad, "int"]})
        if c < 70:
            return place_cond({"value.is_instance": [bad] if r.coin() else ["int", bad]})
        return place_cond({"value.keys_is_instance": [bad]})
    path = G.guided_path(r, d, max_len=2, meaningful=True)
    pspec_parts = [SP.part_spec(p, sp) for p in path.parts]
    if klass == "unknown-path-suffix":
        suf = r.choice(["foo", "lengthh", "typ", "mapkeys", "values", "one", "second", "", "1", "none", "None", "NONE", "fırst", "laſt"])
        key = r.choice([f"path.{suf}", f"path.first.{suf}", f"path.{suf}.length"])
        return place_path({key: pspec_parts})
    if klass == "attribute-as-path-suffix":
        a = r.choice(PATH_ATTRS)
        key = r.choice([f"path.{a}", f"path.{a}", f"path.length.{a}", f"PATH.{a.upper()}" if a.islower() else f"path.{a}"])
        return place_path({key: pspec_parts})
    if klass == "too-many-path-tokens":
        return place_path({r.choice(["path.first.length.dtype", "path.a.b.c", "path.length.first.all"]): pspec_parts})
    if klass == "unknown-part-type":
        return place_part({"type": r.choice(["foo", "map", "list", "dict_value", "", "mapvalue", 1, None])})
    if klass == "cast-not-mapping":
        return "rule", {"path": pspec_parts, "condition": ls, "cast": r.choice(["int", ["str", "int"], 1, True, [["str", "int"]], "str->int", 2.5])}
    if klass == "doc-items-not-strings":
        bad = r.choice([{"description": [1]}, {"description": {"a": "b"}}, {"examples": [None]}, ["ok", 2], {"description": "fine", "examples": [["x"]]},
                        {"description": [["nested"]]}, {"examples": {"k": "v"}}, [None]])
        return "rule", {"path": pspec_parts, "condition": ls, "doc": bad}
    if klass in ("unknown-cast-type", "unsupported-cast-pair"):
        if klass == "unknown-cast-type":
            cast = r.choice([{"foo": "int"}, {"str": "foo"}, {"string": "bool"}, {"str": "integer"}, {1: "int"}, {"str": None}])
        else:
            cast = r.choice([{"str": "str"}, {"int": "str"}, {"bool": "int"}, {"int": "bool"}, {"bool": "str"}, {"int": "int"}])
        return "rule", {"path": pspec_parts, "condition": ls, "cast": cast}
    if klass == "unknown-part-argument":
        t = r.choice(["map_value", "list_value", "map_or_list_value"])
        return place_part({"type": t, r.choice(["foo", "keys", "val", "conditions", "labels", "Value", "KEY", "key_", 1]): {"value.truthy": None}})
    if klass == "index-on-map-part":
        return place_part({"type": "map_value", r.choice(["index", "index.equal_to", "index.lt"]): 1 if r.coin() else {"index.equal_to": 1}})
    if klass == "key-on-list-part":
        return place_part({"type": "list_value", r.choice(["key", "key.equal_to", "key.in"]): "a" if r.coin() else {"key.equal_to": "a"}})
    multi = r.choice(["in_range", "not_in_range", "keys_contain_N_of", "keys_contain_at_least_N_of"])
    mleaf = G.leaf_of_shape(r, ("value", None, multi), "typed")
    names = SP.PARAMS[multi]
    good = [mleaf.kwargs[n] for n in names]
    mkey = f"value.{sp.rcase(multi)}"
    if klass == "arity-too-few":
        return place_cond({mkey: [good[0]] if r.coin() else {names[0]: good[0]}})
    if klass == "arity-too-many":
        return place_cond({mkey: good + [1]})
    if klass == "arity-unknown-keyword":
        kw = dict(zip(names, good))
        kw[r.choice(["foo", "value", "lowerr", "n", "key"])] = 1
        return place_cond({mkey: kw})
    if klass == "shape-scalar-for-multi":
        return place_cond({mkey: r.choice([1, "a", None, 2.5, True])})
    if klass == "shape-nonlist-for-varpos":
        name = r.choice(["is_instance", "keys_contain_any_of", "required_keys", "allowed_keys", "keys_equal_to"])
        bad = r.choice(["int", 1, {"a": 1}, None, "a"]) if name != "is_instance" else r.choice(["int", {"a": 1}])
        return place_cond({f"value.{name}": bad})
    if klass == "shape-nonlist-for-binop":
        other = SP.cond_spec(wellformed_cond(r), sp)
        return "cond", {r.choice(["and", "or", "xor"]): r.choice([other, "a", 1, {"a": other}, None])} if True else None
    if klass == "shape-nonmapping-for-varkw":
        return place_cond({"value.items_contain": r.choice([["a", 1], "a", 1, None, [["a", 1]]])})
    if klass == "two-keys-condition":
        other = SP.cond_spec(wellformed_cond(r), sp)
        both = dict(ls)
        k2, v2 = next(iter(other.items()))
        if k2 in both:
            k2 = "value.truthy" if "value.truthy" not in both else "value.falsy"
            v2 = None
        both[k2] = v2
        return place_cond(both)
    if klass == "two-keys-path":
        return place_path({"path": pspec_parts, r.choice(["path.length", "x", "paths", "value.eq"]): pspec_parts})
    if klass == "missing-path":
        return "rule", {"condition": ls, **({"doc": "x"} if r.coin() else {})}
    if klass == "missing-condition":
        return "rule", {"path": pspec_parts, **({"cast": {"str": "int"}} if r.coin() else {})}
    if klass == "non-mapping-condition":
        bad = r.choice(["value.truthy", ["value.truthy"], 1, 2.5, [{"value.truthy": None}], True])
        c = r.pct()
        if c < 50:
            return "cond", bad
        if c < 75:
            return "cond", {r.choice(["and", "or"]): [bad, ls]}
        return "rule", {"path": ["a"], "condition": bad}
    if klass == "malformed-in-unused-place":
        bad_cond = r.choice([{"bogus.eq": 1}, {"foo": 1}, {"value.equal_too": 1}, {"value.length.foo": 2}])
        if r.coin():
            # the data-path argument of a callable that takes no argument, with an unknown part type inside
            return place_cond({f"value.{r.choice(['truthy', 'falsy', 'null'])}": {"path": ["a", {"type": r.choice(["bogus_value", "map", ""])}]}})
        t, f = r.choice([("map_value", "list_condition"), ("list_value", "map_condition")])
        return place_part({"type": t, f: bad_cond})
    if klass == "binop-item-malformed":
        return "cond", {r.choice(["and", "or", "xor"]): [ls, {"foo.bar": 1}]}
    raise AssertionError(klass)


ALLOWED_NAMES = {"MalformedConditionLikeSpec", "MalformedContainerItemSpec", "MalformedDataPathSpec", "MalformedRuleSpec"}


def classify_exc(e):
    """-> None if the exception is a listed spec error, else a description."""
    n = type(e).__name__
    # (a more specific subclass of a listed spec error is that spec error)
    if any(c.__name__ in ALLOWED_NAMES for c in type(e).__mro__):
        return None
    if isinstance(e, KeyError):
        if e.args and e.args[0] in ("path", "condition", "rules"):
            return None
        return "KeyError-not-naming-a-field"
    if isinstance(e, (TypeError, ValueError)) and not isinstance(e, (UnicodeError,)):
        return None
    return n


def parse_entry(entry, spec):
    ns = build.ns()
    with warnings.catch_warnings():
        warnings.simplefilter("ignore")
        if entry == "cond":
            return ns.c.ConditionLike.from_spec(spec)
        if entry == "part":
            return ns.d.ContainerValue.from_spec(spec)
        if entry == "path":
            return ns.d.DataPath.from_spec(spec)
        if entry == "rule":
            return ns.r.Rule.from_spec(spec)
        if entry == "yaml":
            return ns.s.Schema.from_yaml(spec)
    raise AssertionError(entry)


def valida_depth(e):
    import traceback

    return sum(1 for fr in traceback.extract_tb(e.__traceback__) if "/valida/" in fr.filename)


def body_a(case):
    klass, (entry, spec) = case
    out = Outcome()
    out.nontrivial = True
    out.label(f"A:{klass}", f"entry:{entry}")
    out.sample = f"{klass} via {entry}: {show(spec, 400)}"
    try:
        obj = parse_entry(entry, copy.deepcopy(spec))
    except RecursionError as e:
        out.exc(f"internal-error|{klass}", e)
        return out
    except Exception as e:
        bad = classify_exc(e)
        if bad:
            out.exc(f"internal-error|{klass}", e)
        return out
    out.add("never-accepted", f"never-accepted|{klass}", f"{entry}.from_spec({show(spec,300)}) was accepted and returned {show(obj,200)}")
    return out


WELLFORMED = {
    "cond": [{"value.equal_to": 1}, {"and": [{"value.truthy": None}, {"value.equal_to": 2}]}, {"value.equal_to": {"path": ["zz"]}}],
    "part": [{"type": "map_value", "value": {"value.truthy": None}}, {"type": "list_value", "index": {"index.equal_to": 0}}],
    "path": [{"path": ["zz", {"type": "list_value", "value": {"value.truthy": None}}]}, {"path.length": ["zz"]}],
    "rule": [{"path": ["zz"], "condition": {"value.truthy": None}}, {"path": [{"type": "map_value"}], "condition": {"value.equal_to": 1}, "doc": "d"}],
}


def body_a_recycled(case):
    """The malformed spec is written INTO a structure the library has just parsed successfully (the caller edits its
    own, well-formed spec in place and gets it wrong): it is rejected all the same."""
    klass, (entry, spec) = case
    out = Outcome()
    out.nontrivial = True
    out.label(f"A:{klass}", f"entry:{entry}")
    if entry not in WELLFORMED or not isinstance(spec, dict):
        out.nontrivial = False
        return out
    for w in WELLFORMED[entry]:
        obj = copy.deepcopy(w)
        try:
            parse_entry(entry, obj)
        except Exception:
            continue
        if exact(obj) != exact(w):
            continue
        SP.morph(obj, spec)
        if exact(obj) != exact(spec):
            continue
        out.sample = f"{klass} via {entry}: {show(w,150)} parsed, edited in place into {show(spec, 300)}"
        try:
            got = parse_entry(entry, obj)
        except RecursionError as e:
            out.exc(f"internal-error|{klass}", e)
            return out
        except Exception as e:
            bad = classify_exc(e)
            if bad:
                out.exc(f"internal-error|{klass}", e)
                return out
            continue
        out.add("never-accepted", f"never-accepted|after-in-place-edit|{klass}",
                f"{entry}.from_spec accepted {show(spec,250)} written in place into the parsed {show(w,120)}: {show(got,150)}")
        return out
    return out


def gen_a_case(r, klass):
    return klass, gen_a(r, klass)


# ------------------------------------------------------------------ Tier B
def junk(r, depth=1):
    c = r.pct()
    if c < 55 or depth <= 0:
        return r.choice([None, 0, 1, -1, 2.5, True, False, "", "a", "path", "value.eq", "and", "type", "int", "map_value", "str", "key", "\\path", "value.length.lt", "path.first"])
    if c < 78:
        return [junk(r, depth - 1) for _ in range(r.between(0, 3))]
    return {r.choice(["a", "path", "value.eq", "and", "type", "key", "value", "index", "condition", "label", "cast", "doc", "description", "examples", 1, None, 2.5, True, "str"]): junk(r, depth - 1) for _ in range(r.between(0, 3))}


def nodes_of(x, path=()):
    out = [path]
    if isinstance(x, dict):
        for k, v in x.items():
            out.extend(nodes_of(v, path + (("k", k),)))
    elif isinstance(x, list):
        for i, v in enumerate(x):
            out.extend(nodes_of(v, path + (("i", i),)))
    return out


def get_at(x, path):
    for kind, k in path:
        x = x[k]
    return x


def set_at(root, path, val):
    if not path:
        return val
    parent = get_at(root, path[:-1])
    parent[path[-1][1]] = val
    return root


def mutate_str(r, s):
    c = r.pct()
    if c < 25:
        return s.upper()
    if c < 40:
        return s + "." + r.choice(["x", "length", "eq", ""])
    if c < 55:
        return s.replace(".", "", 1) if "." in s else "." + s
    if c < 70:
        return s.replace(".", "..", 1) if "." in s else s + "_"
    if c < 85:
        return r.choice(["value", "key", "index", "path", "and"]) + "." + s
    return s[: max(0, len(s) - 1)]


def mutate(r, spec):
    spec = copy.deepcopy(spec)
    for _ in range(r.between(1, 4)):
        nodes = nodes_of(spec)
        p = r.choice(nodes)
        node = get_at(spec, p)
        c = r.pct()
        if c < 22:
            spec = set_at(spec, p, junk(r, 2))
        elif c < 50 and isinstance(node, dict) and node:
            k = r.choice(list(node.keys()))
            m = r.pct()
            if m < 35:
                v = node.pop(k)
                nk = mutate_str(r, k) if isinstance(k, str) and r.coin(70) else r.choice([1, None, 2.5, True, "a", "type", "path"])
                node[nk] = v
            elif m < 60:
                node.pop(k)
            elif m < 85:
                node[r.choice(["a", "type", "path", "key", "value", "label", "and", "value.eq", 1, None, "cast", "doc", "index", "condition", "list_condition"])] = junk(r, 1)
            else:
                node[k] = junk(r, 1)
        elif c < 70 and isinstance(node, list):
            m = r.pct()
            if m < 40 and node:
                node.pop(r.below(len(node)))
            elif m < 80:
                node.insert(r.below(len(node) + 1), junk(r, 1))
            else:
                node.reverse()
        elif c < 80:
            spec = set_at(spec, p, [node])
        elif isinstance(node, str):
            spec = set_at(spec, p, mutate_str(r, node))
        else:
            spec = set_at(spec, p, junk(r, 1))
    return spec


def depth_of(x):
    if isinstance(x, dict):
        return 1 + max([depth_of(v) for v in x.values()] or [0])
    if isinstance(x, list):
        return 1 + max([depth_of(v) for v in x] or [0])
    return 0


def gen_b(r):
    d = G.doc(r, 2)
    sp = SP.Spelling(r)
    cls = r.choice(["cond", "cond", "part", "path", "rule", "rule", "yaml"])
    if cls == "cond":
        t = G.tree(r, ("value",) if r.coin() else ("value", "key"), "typed", r.between(0, 2), meaningful=True)
        spec = SP.cond_spec(t, sp)
        if r.coin(30):
            from . import c09
            spec = c09.gen_patharg(r)[1]
    elif cls == "part":
        t = G.blind_part(r, "typed", 1, labels=True, meaningful=True)
        spec = SP.part_spec(t, sp) if isinstance(t, Part) else {"type": "map_value", "key": {"key.equal_to": "a"}}
    elif cls == "path":
        t = G.guided_path(r, d, max_len=3, labels=True, meaningful=True)
        t.datum = r.choice([None, "length", "dtype"])
        spec = SP.path_spec(t, sp)
    else:
        rl = G.rule_for(r, d, mode="typed", cast_p=50, cond_depth=1, max_len=2, with_doc=True, meaningful=True)
        spec = SP.rule_spec(rl, sp)
        if cls == "yaml":
            sp2 = SP.Spelling(r)
            sp2.force_names = True
            spec = {"rules": [SP.rule_spec(rl, sp2)]}
    m = mutate(r, spec)
    return cls, m


def body_b(case):
    entry, spec = case
    out = Outcome()
    out.label(f"B:{entry}")
    if depth_of(spec) > 8:
        return out
    arg = spec
    if entry == "yaml":
        from ruamel.yaml import YAML

        try:
            buf = io.StringIO()
            YAML(typ="safe").dump(spec, buf)
            arg = buf.getvalue()
            YAML(typ="safe").load(arg)
        except Exception:
            out.label("yaml-not-dumpable")
            return out
    out.sample = f"{entry}: {show(spec, 400)}"
    try:
        parse_entry(entry, copy.deepcopy(arg))
        out.nontrivial = True
        out.label("accepted")
    except RecursionError as e:
        out.exc("internal-error|mutation", e)
    except Exception as e:
        bad = classify_exc(e)
        if valida_depth(e) >= 2:
            out.nontrivial = True
        out.label(f"rejected:{type(e).__name__}")
        if bad:
            out.exc("internal-error|mutation", e)
    return out


def tests(tier):
    return [
        TestSpec("definite-errors", gen_a_case, body_a, {"quick": 100, "thorough": 40000}, factors=CATALOGUE, tape=768, fuzz={"thorough": 40000}),
        TestSpec("definite-errors-after-edit", gen_a_case, body_a_recycled, {"quick": 40, "thorough": 8000}, factors=CATALOGUE, tape=768),
        TestSpec("mutations", gen_b, body_b, {"quick": 8000, "thorough": 1200000}, tape=1024, fuzz={"thorough": 150000}),
    ]
