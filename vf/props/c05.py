"""C05 - a rule is valid iff every node its path selects satisfies its condition."""
from ..runner import TestSpec, Outcome
from ..terms import show, Op, Prim
from .. import model, build, gen as G, spec as SP
from ..snapshot import exact
from . import edits

ID = "C05"
RULE = (
    "rules = document-guided path (as C03, no modifiers) x value-kind condition tree (depth<=3, arguments of "
    "every JSON-like type in 50% of cases, well-typed otherwise, conditions anchored on a selected node in 50%) "
    "x document, given raw and wrapped. Oracle: reference rule test (valid iff all selected nodes satisfy; "
    "tested iff something selected; failures = failing selected nodes in selection order with true concrete "
    "paths, re-walked on the document; num_failures; non-empty textual reasons). Non-trivial: >=2 selected nodes "
    "with >=1 failing and >=1 passing, or >=2 failures; distinct by hash of the (document, rule) term."
)
ASSUMPTIONS = ["rule conditions are value-kind; rule paths carry no datum/multiplicity modifiers"]


def gen_case(r):
    d = G.doc(r, 4 if r.coin(60) else 3)
    via_spec = r.pct() < 30
    mode = "typed" if via_spec else ("any" if r.coin() else "typed")
    rule = G.rule_for(r, d, mode=mode, cond_depth=3, max_len=4, meaningful=via_spec)
    if r.coin():
        # anchor the condition on one of the selected nodes so that verdicts are mixed
        sel = model.ref_select(rule.path.parts, d) if rule.path.parts else [(d, ())]
        if sel:
            node = r.choice(sel)[0]
            rule = rule.replace(cond=G.anchored_value_cond(r, node, mode, 2, meaningful=via_spec))
    if r.pct() < 8:
        # xor-heavy combinations of leaves that a selected node satisfies: (A ^ B) & ((C ^ D) ^ E) ...
        sel = model.ref_select(rule.path.parts, d) if rule.path.parts else [(d, ())]
        if sel:
            node = r.choice(sel)[0]
            lf = lambda: G.anchored_value_cond(r, node, mode, 0, meaningful=via_spec)
            shape = r.pct()
            x1 = Op("xor", lf(), lf())
            x2 = Op("xor", Op("xor", lf(), lf()), lf())
            t = Op("and", x1, x2) if shape < 40 else Op("or", x2, x1) if shape < 70 else Op("xor", x1, Op("xor", x2, lf()))
            rule = rule.replace(cond=t)
    spec = SP.rule_spec(rule, SP.Spelling(r)) if via_spec else None
    return d, rule, r.coin(), spec


def check_rule_test(out, rt, ref, doc, prefix="", scalars_only=False):
    """Compare a RuleTest with the reference rule test."""
    if rt.is_valid is not ref["valid"]:
        out.add("validity", f"{prefix}validity", f"is_valid={rt.is_valid!r} expected {ref['valid']}")
    if bool(rt.tested) is not ref["tested"] or not isinstance(rt.tested, bool):
        out.add("tested", f"{prefix}tested", f"tested={rt.tested!r} expected {ref['tested']}")
    fails = list(rt.failures)
    got = [(exact(f.value), tuple(exact(k) for k in f.path)) for f in fails]
    exp = [(exact(v), tuple(exact(k) for k in p)) for v, p in ref["fails"]]
    if scalars_only:
        # container values of cast rules are live references into the shared copy
        strip = lambda xs: [((v if v[0] not in ("list", "dict") else v[0]), p) for v, p in xs]
        got, exp = strip(got), strip(exp)
    if got != exp:
        out.add("failure-list", f"{prefix}failure-list", f"failures={[(f.value, f.path) for f in fails]!r} expected {ref['fails']!r}"[:600])
    if rt.num_failures != len(fails):
        out.add("failure-count", f"{prefix}failure-count", f"num_failures={rt.num_failures} len(failures)={len(fails)}")
    for f in fails:
        try:
            node = model.walk(doc, f.path)
            if exact(node) != exact(f.value) and not scalars_only:
                out.add("failure-path-true", f"{prefix}failure-path-true", f"path {f.path!r} reaches {node!r}, value {f.value!r}")
        except Exception as e:
            out.add("failure-path-true", f"{prefix}failure-path-true", f"path {f.path!r} not walkable: {e!r}")
        rs = f.reasons
        if not (isinstance(rs, tuple) and len(rs) >= 1 and all(isinstance(x, str) and x for x in rs)):
            out.add("reasons", f"{prefix}reasons", f"reasons={rs!r} for value {f.value!r}")


def body(case):
    doc, rule, wrap, spec = case
    out = Outcome()
    ns = build.ns()
    ref = model.ref_rule_test(rule, doc)
    nsel, nfail = len(ref["sel"]), len(ref["fails"])
    out.nontrivial = (nsel >= 2 and 0 < nfail < nsel) or nfail >= 2
    out.label(f"sel:{min(nsel,2)}{'+' if nsel>=2 else ''}", "valid" if ref["valid"] else "invalid",
              "tested" if ref["tested"] else "untested")
    out.sample = f"{show(rule,400)} on {show(doc,200)} -> valid={ref['valid']} fails={len(ref['fails'])}/{nsel}"
    try:
        if spec is not None:
            # the rule given as a spec (any spelling), as a schema file would give it
            import copy, warnings
            with warnings.catch_warnings():
                warnings.simplefilter("ignore")
                robj = ns.r.Rule.from_spec((SP.recycled(spec, ns.r.Rule.from_spec) if len(repr(spec)) % 2 else None) or copy.deepcopy(spec))
            out.label("rule-from-spec")
        else:
            robj = build.build_rule(rule)
    except Exception as e:
        out.exc("build-rule", e)
        return out
    try:
        rt = robj.test(ns.da.Data(doc) if wrap else doc)
    except Exception as e:
        out.exc("no-raise|test", e)
        return out
    check_rule_test(out, rt, ref, doc)
    # the same rule with its path (a) put together with the `/` operator and (b) carrying `.all()` - which asks for
    # every match, i.e. for what the path selects anyway: every selected node is judged, as before
    parts = rule.path.parts
    variants = []
    if len(parts) >= 2:
        k = 1 + len(repr(parts)) % (len(parts) - 1)
        variants.append(("joined-path", lambda: ns.d.DataPath(*[build.build_part(x) for x in parts[:k]]) / (
            build.build_part(parts[k]) if len(parts) - k == 1 and not isinstance(parts[k], Prim) else ns.d.DataPath(*[build.build_part(x) for x in parts[k:]]))))
    if parts and not model.is_concrete(parts) and not rule.path.multi:
        variants.append(("all()-path", lambda: build.build_path(rule.path).all()))
    if not out.violations and not rule.cast:
        for name, mk in variants:
            try:
                r2 = ns.r.Rule(path=mk(), condition=build.build_cond(rule.cond))
                rt2 = r2.test(doc)
            except Exception as e:
                out.exc(f"no-raise|{name}", e)
                continue
            check_rule_test(out, rt2, ref, doc, prefix=f"{name}-")
            out.label(name)
    return out


def tests(tier):
    return [TestSpec("rule-test", gen_case, body, {"quick": 6000, "thorough": 500000}, tape=1280, fuzz={"thorough": 40000}),
            edits.spec("rule", 1500, 120000)]
