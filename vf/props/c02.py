"""C02 - and/or/xor are pointwise Boolean algebra with null as identity; operands unchanged."""
from ..runner import TestSpec, Outcome
from ..terms import Null, Leaf, Op, show, depth, simp, walk_cond
from .. import model, build, gen as G, spec as SP
from ..snapshot import fingerprint, fp_diff
from . import edits

ID = "C02"
RULE = (
    "histories: a program of 4-25 steps (add leaf / add null / combine two pool members with & | ^ / "
    "combine with null on either side / combine-then-null with same or different operator (enumerated "
    "family: 3 ops x null left/right x inner op) / build from a spec list of 0-4 pool members / reuse one "
    "operand in two new combinations) over one kind class (value+key on mapping probes, value+index on "
    "list probes); after every step every pool member is filtered on 3 probe documents and compared with "
    "the reference Boolean algebra, and the fingerprint of every pre-existing member must be unchanged. "
    "Non-trivial history: contains a null combined with a combination (not a leaf) AND an operand that is "
    "filtered again after having been used as an operand. Trees: one-shot random trees of depth<=6 with "
    "null leaves; non-trivial when depth>=2 and the result vector is mixed."
)
ASSUMPTIONS = [
    "key-kind and index-kind conditions are never combined with each other (rejected by design)",
    "spec lists use the lower-case operator keys the library documents",
]

OPS = ["and", "or", "xor"]


def gen_history(r):
    kc = "map" if r.coin() else "list"
    kinds = ("value", "key") if kc == "map" else ("value", "index")
    mk = G.map_doc if kc == "map" else G.list_doc
    probes = [G.cap(mk(r, 2), 130) for _ in range(3)]  # (every member is judged on every probe after every step)
    if r.pct() < 3:
        # one probe with several hundred items (size thresholds)
        n_items = r.choice([257, 300])
        probes[0] = [G.scalar(r) for _ in range(n_items)] if kc == "list" else {f"k{i}": G.scalar(r) for i in range(n_items)}
    prog = []
    n = r.between(4, 22)
    size = 0
    for _ in range(n):
        c = r.pct()
        if size < 2 or c < 22:
            prog.append(("leaf", G.leaf(r, kinds, "typed", meaningful=True)))
            size += 1
        elif c < 30:
            prog.append(("null",))
            size += 1
        elif c < 48:
            # (5th element: written as an augmented assignment, `acc = a; acc &= b` - which must build a new object too)
            prog.append(("combine", r.below(size), r.below(size), r.choice(OPS), r.coin(30)))
            size += 1
        elif c < 60:
            prog.append(("combine_null", r.below(size), r.choice(["l", "r"]), r.choice(OPS)))
            size += 1
        elif c < 76:
            prog.append(("same_op_null", r.below(size), r.below(size), r.choice(OPS), r.choice(OPS) if r.coin(40) else None, r.choice(["l", "r"])))
            size += 2
        elif c < 88:
            k = r.between(0, 4) if r.pct() >= 4 else r.choice([101, 107, 130])  # rarely a very long operand list
            prog.append(("spec", r.choice(OPS), [r.below(size) for _ in range(k)], r.coin(30)))
            size += 1
        else:
            prog.append(("reuse", r.below(size), r.below(size), r.below(size), r.choice(OPS), r.choice(OPS)))
            size += 2
    return kc, probes, prog


def _combine(op, a, b, aug=False):
    if aug:
        acc = a
        if op == "and":
            acc &= b
        elif op == "or":
            acc |= b
        else:
            acc ^= b
        return acc
    if op == "and":
        return a & b
    if op == "or":
        return a | b
    return a ^ b


class Hist:
    """Interpreter of a C02 history: one step at a time, all invariants after every step.
    Used by the program-as-data test (body_history) and by the Hypothesis state machine."""

    def __init__(self, kc, probes):
        self.kc, self.probes = kc, probes
        self.out = Outcome()
        self.out.evals = 0
        self.ns = build.ns()
        self.pool = []  # (term, obj)
        self.used_as_operand = set()
        self.null_with_comb = False
        self.refiltered_operand = False
        self.prog = []
        self.dead = False

    @staticmethod
    def is_comb(t):
        return isinstance(simp(t), Op)

    def check_all(self, step_i, step, before_fp, n_before):
        out, pool = self.out, self.pool
        for idx, (t, o) in enumerate(pool):
            for pd in self.probes:
                exp = model.ref_filter(t, pd)
                out.evals += 1
                try:
                    got = o.filter(pd).result
                except Exception as e:
                    out.exc(f"filter-after-{step[0]}", e)
                    return False
                if got != exp:
                    which = "new" if idx >= n_before else "pre-existing"
                    out.add("boolean-algebra", f"boolean-algebra|{step[0]}|{which}",
                            f"step {step_i} {step!r}: member {idx} {show(t,200)} on {show(pd,120)}: got {got} expected {exp}")
                    return False
            if idx in self.used_as_operand:
                self.refiltered_operand = True
        if before_fp is not None:
            after = fingerprint(*[o for _, o in pool[:n_before]])
            if after != before_fp:
                out.add("operands-unchanged", f"operands-unchanged|{step[0]}",
                        f"step {step_i} {step!r}: {fp_diff(before_fp, after)}")
                return False
        return True

    def step(self, step):
        """-> False when the history must stop (a violation was recorded)."""
        if self.dead:
            return False
        out, pool, ns = self.out, self.pool, self.ns
        i = len(self.prog)
        self.prog.append(step)
        n_before = len(pool)
        before = fingerprint(*[o for _, o in pool])
        is_comb = self.is_comb
        try:
            if step[0] == "leaf":
                pool.append((step[1], build.build_leaf(step[1])))
            elif step[0] == "null":
                pool.append((Null(), ns.c.NullCondition()))
            elif step[0] == "combine":
                _, a, b, op = step[:4]
                aug = len(step) > 4 and step[4]
                (ta, oa), (tb, ob) = pool[a], pool[b]
                pool.append((Op(op, ta, tb), _combine(op, oa, ob, aug)))
                if aug:
                    self.out.label("augmented-assignment")
                self.used_as_operand.update((a, b))
                if (isinstance(simp(ta), Null) and is_comb(tb)) or (isinstance(simp(tb), Null) and is_comb(ta)):
                    self.null_with_comb = True
            elif step[0] == "combine_null":
                _, a, side, op = step
                ta, oa = pool[a]
                nul = ns.c.NullCondition()
                if side == "l":
                    pool.append((Op(op, Null(), ta), _combine(op, nul, oa)))
                else:
                    pool.append((Op(op, ta, Null()), _combine(op, oa, nul)))
                self.used_as_operand.add(a)
                if is_comb(ta):
                    self.null_with_comb = True
            elif step[0] == "same_op_null":
                _, a, b, op, op2, side = step
                (ta, oa), (tb, ob) = pool[a], pool[b]
                inner_t, inner_o = Op(op, ta, tb), _combine(op, oa, ob)
                pool.append((inner_t, inner_o))
                outer = op2 or op
                nul = ns.c.NullCondition()
                if side == "l":
                    pool.append((Op(outer, Null(), inner_t), _combine(outer, nul, inner_o)))
                else:
                    pool.append((Op(outer, inner_t, Null()), _combine(outer, inner_o, nul)))
                self.used_as_operand.update((a, b, len(pool) - 2))
                if is_comb(inner_t):
                    self.null_with_comb = True
                out.label(f"same-op-null:{op}:{'same' if outer == op else 'diff'}:{side}")
            elif step[0] == "spec":
                _, op, idxs, nest = step
                specs = [SP.cond_spec(pool[j][0]) for j in idxs]
                t = Null()
                for j in idxs:
                    t = Op(op, t, pool[j][0])
                if nest and len(specs) >= 2:
                    # nest a list of the same operator: {op: [{op: [s0, s1]}, s2, ...]}
                    specs = [{op: specs[:2]}] + specs[2:]
                o = ns.c.ConditionLike.from_spec({op: specs})
                pool.append((t, o))
                out.label(f"spec-list:{len(idxs)}")
            elif step[0] == "reuse":
                _, a, b, c, op1, op2 = step
                (ta, oa), (tb, ob), (tc, oc) = pool[a], pool[b], pool[c]
                pool.append((Op(op1, ta, tb), _combine(op1, oa, ob)))
                pool.append((Op(op2, ta, tc), _combine(op2, oa, oc)))
                self.used_as_operand.update((a, b, c))
        except TypeError as e:
            if "Cannot combine `Key` and `Index`" in str(e):
                return True  # cannot happen within one kind class; by-design rejection
            out.exc(f"build-{step[0]}", e)
            self.dead = True
            return False
        except Exception as e:
            out.exc(f"build-{step[0]}", e)
            self.dead = True
            return False
        if not self.check_all(i, step, before, n_before):
            self.dead = True
            return False
        return True

    def finish(self):
        out = self.out
        out.nontrivial = self.null_with_comb and self.refiltered_operand
        if self.null_with_comb:
            out.label("null-with-combination")
        if self.refiltered_operand:
            out.label("operand-refiltered")
        out.sample = f"{self.kc} probes={show(self.probes,150)} program={show(self.prog,500)}"
        return out


def body_history(case):
    kc, probes, prog = case
    h = Hist(kc, probes)
    for step in prog:
        if not h.step(step):
            break
    return h.finish()


def machine_history(seed, n, record):
    """The same histories driven by a Hypothesis RuleBasedStateMachine: every rule draws the
    arguments of ONE operation (pool indices, operators, a leaf decoded from a small tape),
    executes it through the interpreter above, and the invariants run after every step.
    The executed program is recorded as a case of the `history` test, so that a violation
    found here replays (and shrinks) through the program-as-data body."""
    import hypothesis
    from hypothesis import strategies as st
    from hypothesis.stateful import RuleBasedStateMachine, rule, initialize, precondition, run_state_machine_as_test
    from ..runner import hyp_settings

    tape = st.binary(min_size=96, max_size=96)
    idx = st.integers(0, 255)
    ops = st.sampled_from(OPS)
    side = st.sampled_from(["l", "r"])

    class M(RuleBasedStateMachine):
        def __init__(self):
            super().__init__()
            self.h = None

        @initialize(kc=st.sampled_from(["map", "list"]), t=st.binary(min_size=384, max_size=384))
        def setup(self, kc, t):
            r = G.R(t)
            mk = G.map_doc if kc == "map" else G.list_doc
            self.kinds = ("value", "key") if kc == "map" else ("value", "index")
            self.h = Hist(kc, [G.cap(mk(r, 2), 130) for _ in range(3)])

        def size(self):
            return len(self.h.pool)

        @rule(t=tape)
        def add_leaf(self, t):
            self.h.step(("leaf", G.leaf(G.R(t), self.kinds, "typed", meaningful=True)))

        @rule()
        def add_null(self):
            self.h.step(("null",))

        @precondition(lambda self: self.h is not None and len(self.h.pool) >= 2)
        @rule(a=idx, b=idx, op=ops, aug=st.booleans())
        def combine(self, a, b, op, aug):
            n = self.size()
            self.h.step(("combine", a % n, b % n, op, aug))

        @precondition(lambda self: self.h is not None and len(self.h.pool) >= 1)
        @rule(a=idx, s=side, op=ops)
        def combine_null(self, a, s, op):
            self.h.step(("combine_null", a % self.size(), s, op))

        @precondition(lambda self: self.h is not None and len(self.h.pool) >= 2)
        @rule(a=idx, b=idx, op=ops, op2=st.one_of(st.none(), ops), s=side)
        def same_op_null(self, a, b, op, op2, s):
            n = self.size()
            self.h.step(("same_op_null", a % n, b % n, op, op2, s))

        @precondition(lambda self: self.h is not None and len(self.h.pool) >= 1)
        @rule(op=ops, idxs=st.lists(idx, max_size=4), nest=st.booleans())
        def from_spec_list(self, op, idxs, nest):
            n = self.size()
            self.h.step(("spec", op, [i % n for i in idxs], nest))

        @precondition(lambda self: self.h is not None and len(self.h.pool) >= 2)
        @rule(a=idx, b=idx, c=idx, op1=ops, op2=ops)
        def reuse(self, a, b, c, op1, op2):
            n = self.size()
            self.h.step(("reuse", a % n, b % n, c % n, op1, op2))

        def teardown(self):
            if self.h is not None:
                record((self.h.kc, self.h.probes, list(self.h.prog)), self.h.finish())

    import hypothesis as hy
    settings = hy.settings(hyp_settings(n), stateful_step_count=25)
    run_state_machine_as_test(hy.seed(seed)(M), settings=settings)


def gen_tree(r):
    kc = "map" if r.coin() else "list"
    kinds = ("value", "key") if kc == "map" else ("value", "index")
    via_spec = r.coin(30)
    mk = G.map_doc if kc == "map" else G.list_doc
    if r.pct() < 12:
        # value-kind operands some of which take a data-path argument (resolved against the
        # document when the tree is judged through a rule), at any position of the tree
        from . import c17
        probes = [G.cap(mk(r, 3)) for _ in range(2)]

        def node(d):
            if d <= 0 or r.pct() < 35:
                return c17.gen_leaf_with_paths(r, probes[0]) if r.coin(55) else G.leaf(r, ("value",), "typed")
            return Op(r.choice(OPS), node(d - 1), node(d - 1))

        return node(r.between(1, 3)), probes, False
    t = G.tree(r, kinds, "typed", depth=r.between(1, 6), null_p=15, meaningful=via_spec)
    return t, [G.cap(mk(r, 2)) for _ in range(2)], via_spec


def body_tree(case):
    t, probes, via_spec = case
    out = Outcome()
    ns = build.ns()
    try:
        if via_spec:
            o = ns.c.ConditionLike.from_spec(SP.cond_spec(t)) if not isinstance(t, Null) else ns.c.NullCondition()
        else:
            o = build.build_cond(t)
    except Exception as e:
        out.exc("build-tree", e)
        return out
    mixed = False
    with_paths = model.has_path_args(t)
    for pd in probes:
        if with_paths:
            break  # such operands are only meaningful with a source document: judged through a rule below
        exp = model.ref_filter(t, pd)
        try:
            got = o.filter(pd).result
        except Exception as e:
            out.exc("filter-tree", e)
            return out
        if got != exp:
            out.add("boolean-algebra", "boolean-algebra|tree|" + ("spec" if via_spec else "dsl"),
                    f"{show(t,300)} on {show(pd,150)}: got {got} expected {exp}")
            return out
        # the other entry points of a combination: wrapped data, Data.filter, test_all, test
        try:
            D = ns.da.Data(pd)
            alt = {"filter(Data)": o.filter(D).result, "Data.filter": ns.da.Data(pd).filter(o).result}
            ta = o.test_all(pd)
        except Exception as e:
            out.exc("entry-points-tree", e)
            return out
        for nm, r_ in alt.items():
            if r_ != exp:
                out.add("boolean-algebra", f"boolean-algebra|tree|{nm}", f"{nm}: {show(t,300)} on {show(pd,150)}: got {r_} expected {exp}")
                return out
        if ta is not all(exp):
            out.add("boolean-algebra", "boolean-algebra|tree|test_all", f"test_all={ta!r} expected {all(exp)} for {show(t,300)} on {show(pd,150)}")
            return out
        mixed = mixed or (any(exp) and not all(exp))
    # the same tree judged through a rule over a bare fan-out part: there the items carry
    # their concrete paths while they are filtered
    from ..terms import cond_kinds
    if cond_kinds(t) <= {"value"}:
        # (path arguments carry modifiers that are defined on the first probe only, as in C17)
        for pd in (probes[:1] if with_paths else probes):
            try:
                exp = model.ref_filter(t, pd, model.make_resolver(pd) if with_paths else None)
            except Exception:
                continue
            mixed = mixed or (any(exp) and not all(exp))
            try:
                part = ns.d.MapValue() if isinstance(pd, dict) else ns.d.ListValue()
                rt = ns.r.Rule(ns.d.DataPath(part), o).test(pd)
                keys = [k for k, _ in model.items_of(pd)]
                got_fail = sorted(repr(f.path[0]) for f in rt.failures)
                exp_fail = sorted(repr(k) for k, e in zip(keys, exp) if not e)
            except Exception as e:
                out.exc("rule-over-tree", e)
                return out
            if got_fail != exp_fail or rt.is_valid is not all(exp):
                out.add("boolean-algebra", "boolean-algebra|tree|through-rule",
                        f"{show(t,300)} on {show(pd,150)}: failing items {got_fail} expected {exp_fail}")
                return out
        out.label("judged-through-rule", *(["path-valued-operands"] if with_paths else []))
    d = depth(t)
    out.label(f"depth:{d}")
    nulls = sum(1 for n in walk_cond(t) if isinstance(n, Null))
    if nulls:
        out.label("has-null")
    out.nontrivial = d >= 2 and mixed
    out.sample = f"{show(t,400)} on {show(probes,200)}"
    return out


def tests(tier):
    return [
        TestSpec("history", gen_history, body_history, {"quick": 400, "thorough": 40000}, tape=1024, fuzz={"thorough": 6000}),
        TestSpec("history-machine", gen_history, body_history, {"quick": 120, "thorough": 8000}, tape=1024, machine=machine_history),
        TestSpec("tree", gen_tree, body_tree, {"quick": 3000, "thorough": 400000}, tape=768, fuzz={"thorough": 40000}),
        edits.spec("combo", 1200, 100000),
    ]
