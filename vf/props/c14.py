"""C14 - equality is an equivalence relation that implies identical behaviour."""
import copy

from ..runner import TestSpec, Outcome
from ..terms import Null, Leaf, Op, Prim, Part, PathT, RuleT, SchemaT, show, simp, depth, leaves
from .. import model, build, gen as G
from ..snapshot import exact

ID = "C14"
RULE = (
    "terms x of every class (condition, path part, path, rule, schema), document-guided so that atoms are observable, "
    "and derived y: REBUILT (fresh objects from the same term), COMMUTED (operands swapped at a tape-drawn subset of "
    "and/or/xor nodes anywhere inside the term), ATOM-CHANGED (one type-preserving change: a primitive key replaced by "
    "another existing key of the same type, an index, a leaf argument, a callable of the same signature, a part kind, "
    "a label, a cast, a path modifier). Oracle: x==x; (x==y) is (y==x) for all pairs; transitivity over all triples from "
    "{x, rebuilt, commuted, atom-changed, commuted-rebuilt}; rebuilt and commuted copies compare equal; and whenever "
    "x==y is True the two objects behave identically on 2 probe documents (filter results / selections with paths / "
    "verdicts, failures and cast data), behaviour taken from the library itself. Non-trivial: an atom-changed pair whose "
    "REFERENCE behaviours differ on the probes (the only pairs that can expose a too-weak equality), or a commuted pair "
    "at depth>=2; distinct by hash of the term tuple."
)
ASSUMPTIONS = [
    "atom changes are type-preserving (1 -> 2, 'a' -> 'b'), so Python's own cross-type equalities (1 == True == 1.0) are not exercised as 'changes'",
    "!= is never asserted on its own; only the implication x == y => same behaviour",
]

SWAPS = {
    "equal_to": "not_equal_to", "not_equal_to": "equal_to", "less_than": "greater_than", "greater_than": "less_than",
    "less_than_or_equal_to": "greater_than_or_equal_to", "greater_than_or_equal_to": "less_than_or_equal_to",
    "in_": "not_in", "not_in": "in_", "in_range": "not_in_range", "not_in_range": "in_range",
    "factor_of": "has_factor", "has_factor": "factor_of", "truthy": "falsy", "falsy": "truthy",
    "keys_contain_any_of": "keys_contain_all_of", "keys_contain_all_of": "keys_contain_any_of",
    "allowed_keys": "required_keys", "required_keys": "forbidden_keys", "forbidden_keys": "allowed_keys",
    "keys_contain_N_of": "keys_contain_at_least_N_of", "keys_contain_at_least_N_of": "keys_contain_at_most_N_of",
    "keys_contain_at_most_N_of": "keys_contain_N_of", "keys_contain_at_least_one_of": "keys_contain_at_most_one_of",
    "keys_contain_at_most_one_of": "keys_contain_at_least_one_of", "is_instance": "is_instance",
    "keys_equal_to": "allowed_keys", "keys_contain_one_of": "keys_contain_any_of",
}


def change_value(r, v):
    """A different value of the same type."""
    if isinstance(v, bool):
        return not v
    if isinstance(v, int):
        return v + r.choice([1, -1, 2])
    if isinstance(v, float):
        if r.pct() < 25 and v == v and abs(v) < 1e300:
            # the neighbouring float (0.3 and 0.1 + 0.2 are different numbers)
            import math
            return math.nextafter(v, math.inf if r.coin() else -math.inf)
        return v + r.choice([1.0, -0.5])
    if isinstance(v, list) and r.pct() < 15:
        return tuple(v)  # the tuple with the same items is another argument (it equals no list)
    if isinstance(v, tuple) and r.pct() < 25:
        return list(v)
    if isinstance(v, str):
        return r.choice([s for s in ["a", "b", "abc", "x y", "1", "zz"] if s != v])
    if isinstance(v, type):
        return r.choice([t for t in G.TYPES if t is not v])
    if isinstance(v, list):
        if v and r.coin():
            i = r.below(len(v))
            return v[:i] + [change_value(r, v[i])] + v[i + 1:]
        return v + [r.choice([7, "q"])]
    if isinstance(v, tuple):
        return tuple(change_value(r, list(v)))
    if isinstance(v, dict):
        d = dict(v)
        d["zz"] = 1 if d.get("zz") != 1 else 2
        return d
    if v is None:
        return None
    return v


def commute(r, t):
    if isinstance(t, Op):
        l, rr = commute(r, t.l), commute(r, t.r)
        return Op(t.op, rr, l) if r.coin(60) else Op(t.op, l, rr)
    if isinstance(t, Leaf) and t.name == "items_contain" and len(t.kwargs) >= 2 and r.coin(60):
        # the same definition with its keyword arguments written in another order
        return t.replace(kwargs={k: t.kwargs[k] for k in reversed(list(t.kwargs))})
    return t


def change_leaf(r, l):
    c = r.pct()
    if l.name == "items_contain" and l.kwargs and c < 50:
        # rename one keyword (the item key), keeping its value
        kw = dict(l.kwargs)
        k = r.choice(list(kw))
        nk = r.choice([x for x in ["a", "b", "abc", "c", "zz"] if x not in kw])
        return l.replace(kwargs={(nk if kk == k else kk): v for kk, v in kw.items()})
    if c < 35 and l.name in SWAPS and SWAPS[l.name] != l.name:
        return l.replace(name=SWAPS[l.name])
    if l.kwargs:
        k = r.choice(list(l.kwargs))
        nv = change_value(r, l.kwargs[k])
        kw = dict(l.kwargs)
        kw[k] = nv
        return l.replace(kwargs=kw)
    if l.args:
        i = r.below(len(l.args))
        a = list(l.args)
        a[i] = change_value(r, a[i])
        return l.replace(args=tuple(a))
    if l.name in SWAPS:
        return l.replace(name=SWAPS[l.name])
    return l


def change_cond(r, t):
    """Change one leaf of a condition tree (or turn a null into a leaf)."""
    if isinstance(t, Null):
        return Leaf("value", None, "truthy")
    if isinstance(t, Leaf):
        return change_leaf(r, t)
    if r.pct() < 12:
        return Op(r.choice([o for o in ("and", "or", "xor") if o != t.op]), t.l, t.r)
    if r.coin():
        return Op(t.op, change_cond(r, t.l), t.r)
    return Op(t.op, t.l, change_cond(r, t.r))


def change_part(r, p, doc_node=None):
    if isinstance(p, Prim):
        if isinstance(doc_node, dict):
            cands = [k for k in doc_node if type(k) is type(p.v) and k != p.v]
            if cands:
                return Prim(r.choice(cands))
        if isinstance(doc_node, list) and isinstance(p.v, int) and not isinstance(p.v, bool):
            cands = [i for i in range(len(doc_node)) if i != p.v]
            if cands:
                return Prim(r.choice(cands))
        return Prim(change_value(r, p.v))
    c = r.pct()
    if c < 20:
        return p.replace(label=r.choice([x for x in ("other", "second", None, "") if x != p.label]))
    if c < 40:
        nk = {"map": "mol", "list": "mol", "mol": r.choice(["map", "list"])}[p.ctype]
        return Part(nk, key=p.key if nk != "list" else None, index=p.index if nk != "map" else None, value=p.value, label=p.label)
    slots = [s for s in ("key", "index", "value") if not (s == "key" and p.ctype == "list") and not (s == "index" and p.ctype == "map")]
    s = r.choice(slots)
    cur = getattr(p, s)
    if isinstance(simp(cur), Null):
        kind = {"key": "key", "index": "index", "value": "value"}[s]
        new = G.leaf(r, (kind,), "typed")
    else:
        new = change_cond(r, cur)
    return p.replace(**{s: new})


def change_path(r, path, doc):
    parts = list(path.parts)
    c = r.pct()
    if not parts or c < 12:
        conc = model.is_concrete(parts)
        if r.coin() or conc:
            return path.replace(datum=r.choice([d for d in ("length", "dtype", "map_keys", "map_values", None) if d != path.datum]))
        return path.replace(multi=r.choice([m for m in ("first", "last", "all", None) if m != path.multi]))
    i = r.below(len(parts))
    frontier = model.ref_select(parts[:i], doc) if i else [(doc, ())]
    node = frontier[0][0] if frontier else None
    parts[i] = change_part(r, parts[i], node)
    return path.replace(parts=parts)


def change_rule(r, rule, doc):
    c = r.pct()
    if c < 35:
        return rule.replace(path=change_path(r, rule.path.replace(datum=None, multi=None), doc).replace(datum=None, multi=None))
    if c < 75:
        return rule.replace(cond=change_cond(r, rule.cond))
    return rule.replace(cast={None: "int", "int": "bool", "bool": None}[rule.cast] if r.coin() else {None: "bool", "bool": "int", "int": None}[rule.cast])


def commute_term(r, x):
    if isinstance(x, (Null, Leaf, Op)):
        return commute(r, x)
    if isinstance(x, Part):
        return x.replace(key=commute(r, x.key), index=commute(r, x.index), value=commute(r, x.value))
    if isinstance(x, Prim):
        return x
    if isinstance(x, PathT):
        return x.replace(parts=[commute_term(r, p) for p in x.parts])
    if isinstance(x, RuleT):
        return x.replace(path=commute_term(r, x.path), cond=commute(r, x.cond))
    if isinstance(x, SchemaT):
        return SchemaT([commute_term(r, rl) for rl in x.rules])
    return x


def has_op(x):
    if isinstance(x, Op):
        return depth(x)
    if isinstance(x, Part):
        return max(has_op(x.key), has_op(x.index), has_op(x.value))
    if isinstance(x, PathT):
        return max([has_op(p) for p in x.parts] or [0])
    if isinstance(x, RuleT):
        return max(has_op(x.path), has_op(x.cond))
    if isinstance(x, SchemaT):
        return max([has_op(rl) for rl in x.rules] or [0])
    return 0


def gen_case(r):
    d = G.hostile_doc(r, 3)
    cls = r.choice(["cond", "part", "path", "path", "rule", "rule", "schema"])
    probes = [d, G.hostile_doc(r, 3)]
    if cls == "cond":
        kc = r.choice(["value", "key", "index"])
        kinds = ("value",) if kc == "value" else ("value", kc)
        x = G.tree(r, kinds, "typed", depth=r.between(0, 3), null_p=5)
        if isinstance(x, Null):
            x = Leaf("value", None, "truthy")
        y = change_cond(r, x)
        if kc == "value":
            # a probe made of the argument values themselves (so that two conditions that differ in one argument are
            # seen to differ): lists stand in for tuples, which no JSON / YAML document holds
            def plain(v):
                return [plain(i) for i in v] if isinstance(v, (list, tuple)) else v
            wit = [plain(a) for t_ in (x, y) for l_ in leaves(t_) for a in list(l_.args) + list(l_.kwargs.values())
                   if not isinstance(a, (type, PathT))]
            if wit:
                probes = probes + [wit]
        if kc == "key":
            probes = [G.map_doc(r, 2, G.hostile_scalar), G.map_doc(r, 2)]
        elif kc == "index":
            probes = [G.list_doc(r, 2, G.hostile_scalar), G.list_doc(r, 2)]
    elif cls == "part":
        p = G.guided_path(r, d, max_len=1, min_len=1, miss=10, labels=True)
        x = p.parts[0] if p.parts else Part("map")
        y = change_part(r, x, d)
    elif cls == "path":
        x = G.guided_path(r, d, max_len=4, miss=8, labels=True)
        if r.coin(25):
            x = x.replace(datum=r.choice(["dtype", "length"]))
        y = change_path(r, x, d)
    elif cls == "rule":
        x = G.rule_for(r, d, mode="typed", cast_p=40, cond_depth=2, max_len=3)
        if r.pct() < 25:
            # a condition with data-path arguments (resolved against each validated document)
            from . import c17
            pc = c17.gen_leaf_with_paths(r, d)
            if r.coin(60):
                # ... inside a combination (either side), so that the commuted copy moves it
                o = G.tree(r, ("value",), "typed", 1, meaningful=True) if r.coin(70) else c17.gen_leaf_with_paths(r, d)
                if not isinstance(o, Null):
                    pc = Op(r.choice(["and", "or", "xor"]), pc, o) if r.coin() else Op(r.choice(["and", "or", "xor"]), o, pc)
            x = x.replace(cond=pc, cast=None)
        y = change_rule(r, x, d)
    else:
        rules = [G.rule_for(r, d, mode="typed", cast_p=30, cond_depth=1, max_len=3) for _ in range(r.between(1, 3))]
        x = SchemaT(rules)
        i = r.below(len(rules))
        c = r.pct()
        if c < 70:
            y = SchemaT(rules[:i] + [change_rule(r, rules[i], d)] + rules[i + 1:])
        elif c < 85 and len(rules) > 1:
            y = SchemaT(rules[:i] + rules[i + 1:])
        else:
            y = SchemaT(rules + [G.rule_for(r, d, mode="typed", cast_p=0, cond_depth=1, max_len=2)])
    y2 = None
    if cls in ("part", "path", "rule", "cond") and r.coin(60):
        # a second, independent change of (often) the same atom, for transitivity
        if cls == "cond":
            y2 = change_cond(r, x)
        elif cls == "part":
            y2 = change_part(r, x, d)
        elif cls == "path":
            y2 = change_path(r, x, d)
        else:
            y2 = change_rule(r, x, d)
    xc = commute_term(r, x)
    if cls == "schema" and r.coin(50):
        # also: the same rules in another order (y), with a second rule on the SAME path that
        # declares the other cast, so that rule order is observable
        rules = list(x.rules)
        base = r.choice(rules)
        other = base.replace(cast={None: "int", "int": "bool", "bool": "int"}[base.cast], cond=G.tree(r, ("value",), "typed", 1))
        rules.insert(r.below(len(rules) + 1), other)
        x = SchemaT(rules)
        xc = commute_term(r, x)
        perm = list(rules)
        for i in range(len(perm) - 1, 0, -1):
            j = r.below(i + 1)
            perm[i], perm[j] = perm[j], perm[i]
        y = SchemaT(perm)
    return cls, x, xc, y, probes, y2


def build_any(cls, t):
    if cls == "cond":
        return build.build_cond(t)
    if cls == "part":
        return build.build_part(t)
    if cls == "path":
        return build.build_path(t)
    if cls == "rule":
        return build.build_rule(t)
    return build.build_schema(t)


def behaviour(cls, obj, probes):
    """Observable behaviour, from the library itself."""
    ns = build.ns()
    out = []
    for pd in probes:
        try:
            if cls == "cond":
                out.append(("ok", obj.filter(pd).result))
            elif cls == "part":
                out.append(("ok", exact(ns.d.DataPath(obj).get_data(pd, return_paths=True))))
            elif cls == "path":
                out.append(("ok", exact(obj.get_data(pd, return_paths=obj.DATUM_TYPE.value is None))))
            elif cls == "rule":
                rt = obj.test(pd)
                out.append(("ok", rt.is_valid, rt.tested, [exact(tuple(f.path)) for f in rt.failures], exact(rt.data.get_original())))
            else:
                vd = obj.validate(pd)
                out.append(("ok", vd.is_valid, vd.num_failures, vd.num_rules_tested, exact(vd.cast_data)))
        except Exception as e:
            out.append(("raised", type(e).__name__))
    return out


def ref_behaviour(cls, t, probes):
    out = []
    for pd in probes:
        try:
            if cls == "cond":
                out.append(model.ref_filter(t, pd))
            elif cls == "part":
                out.append(exact(model.ref_select([t], pd)))
            elif cls == "path":
                try:
                    out.append(exact(model.ref_resolve(t, pd)))
                except (model.Undefined, model.RefError) as e:
                    out.append(type(e).__name__)
            elif cls == "rule":
                rr = model.ref_schema_validate(SchemaT([t]), pd)
                out.append((rr["valid"], exact([p for _, p in rr["tests"][0][1]["fails"]]), exact(rr["cast"])))
            else:
                rr = model.ref_schema_validate(t, pd)
                out.append((rr["valid"], rr["nfail"], rr["ntested"], exact(rr["cast"])))
        except Exception as e:
            out.append(("model-error", type(e).__name__))
    return out


def body(case):
    cls, x, xc, y, probes, y2 = case
    out = Outcome()
    out.label(f"class:{cls}")
    import contextlib
    shared = (len(show(x, 10000)) % 3 == 0)  # a third of the cases: x and its changed versions SHARE equal sub-objects
    try:
        ox = build_any(cls, x)
        orb = build_any(cls, x)  # rebuilt
        oc = build_any(cls, xc)  # commuted
        ocr = build_any(cls, xc)  # commuted, rebuilt
    except Exception as e:
        out.exc("build", e)
        return out
    try:
        with (build.sharing() if shared else contextlib.nullcontext()):
            if shared:
                ox = build_any(cls, x)  # built inside the sharing context together with y
            oy = build_any(cls, y)
    except Exception:
        oy = None  # the changed term may be ill-kinded (e.g. a part kind that rejects its conditions)
    if shared:
        out.label("shared-sub-objects")
    objs = {"x": ox, "rebuilt": orb, "commuted": oc, "commuted-rebuilt": ocr}
    if oy is not None:
        objs["atom-changed"] = oy
    if y2 is not None:
        try:
            objs["atom-changed-2"] = build_any(cls, y2)
        except Exception:
            pass
    names = list(objs)
    eq = {}
    try:
        for a in names:
            for b in names:
                eq[(a, b)] = objs[a] == objs[b]
    except Exception as e:
        out.exc("equality-raised", e)
        return out
    for a in names:
        if eq[(a, a)] is not True:
            out.add("reflexive", f"reflexive|{cls}", f"{show(objs[a],300)} != itself")
    for a in names:
        for b in names:
            if eq[(a, b)] is not eq[(b, a)]:
                out.add("symmetric", f"symmetric|{cls}", f"{a}=={b} is {eq[(a,b)]} but {b}=={a} is {eq[(b,a)]}: {show(objs[a],200)} / {show(objs[b],200)}")
                break
    for a in names:
        for b in names:
            for c in names:
                if eq[(a, b)] is True and eq[(b, c)] is True and eq[(a, c)] is not True:
                    out.add("transitive", f"transitive|{cls}", f"{a}=={b}, {b}=={c} but not {a}=={c}")
    for b in ("rebuilt", "commuted", "commuted-rebuilt"):
        if eq[("x", b)] is not True or eq[(b, "x")] is not True:
            out.add("copies-equal", f"copies-equal|{b}|{cls}", f"x = {show(x,250)}; {b} = {show(xc if 'comm' in b else x,250)} compare unequal")
    # equal => same behaviour
    beh = {a: behaviour(cls, objs[a], probes) for a in names}
    for a in names:
        for b in names:
            if a < b and eq[(a, b)] is True and beh[a] != beh[b]:
                out.add("equal-implies-same-behaviour", f"equal-implies-same-behaviour|{cls}",
                        f"{show(objs[a],250)} == {show(objs[b],250)} but behave differently on {show(probes,150)}: {show(beh[a],150)} vs {show(beh[b],150)}")
    # a modifier copy derived AFTER the base path has taken part in comparisons
    if cls == "path" and x.datum is None:
        try:
            d1 = ox.dtype()
            d2 = build_any(cls, x.replace(datum="dtype"))
            if not (d1 == d2 and d2 == d1):
                out.add("copies-equal", "copies-equal|derived-after-comparison", "base.dtype() derived after base was compared is unequal to a freshly built copy of the same definition")
            if (d1 == ox) is True and behaviour(cls, d1, probes) != behaviour(cls, ox, probes):
                out.add("equal-implies-same-behaviour", "equal-implies-same-behaviour|derived-after-comparison", "base.dtype() == base although they return different things")
        except Exception as e:
            out.exc("derived-after-comparison", e)
    # equality must not depend on the objects having been used: after all the calls above, x
    # still equals a copy built now, and the copies still equal each other
    try:
        fresh = build_any(cls, x)
        if not (ox == fresh and fresh == ox):
            out.add("copies-equal", f"copies-equal|after-use|{cls}", f"after being used on the probe documents, {show(ox,250)} no longer equals a freshly built copy {show(fresh,250)}")
        elif not (ox == orb and orb == ox):
            out.add("copies-equal", f"copies-equal|after-use|{cls}", "two copies that were equal before use compare unequal after use")
    except Exception as e:
        out.exc("equality-after-use", e)
    differs = oy is not None and ref_behaviour(cls, x, probes) != ref_behaviour(cls, y, probes)
    d = has_op(x)
    if differs:
        out.label("atom-change-observable")
    if d >= 2 and xc != x:
        out.label("commuted-depth>=2")
    out.nontrivial = differs or (d >= 2 and xc != x)
    out.sample = f"{cls}: x={show(x,250)} y={show(y,250)}"
    return out


def gen_bound(r):
    d = G.hostile_doc(r, 3)
    p = G.guided_path(r, d, max_len=3, miss=8)
    c = r.pct()
    if c < 45:
        d2 = G.twinned(r, d, 50)  # == d, types differ
    elif c < 85:
        # same keys / lengths, some scalar values changed
        def perturb(x):
            if isinstance(x, dict):
                return {k: perturb(v) for k, v in x.items()}
            if isinstance(x, list):
                return [perturb(v) for v in x]
            return G.hostile_scalar(r) if r.pct() < 40 else x
        d2 = perturb(d)
    else:
        d2 = G.hostile_doc(r, 3)
    return p, d, d2, r.coin(), r.coin()


def body_bound(case):
    """Paths bound to a document (source_data=...): if two bound paths compare equal they
    must select the same nodes."""
    path, d1, d2, wrap1, wrap2 = case
    out = Outcome()
    ns = build.ns()
    W = ns.da.Data
    try:
        a = build.build_path(path, source_data=W(d1) if wrap1 else d1)
        b = build.build_path(path, source_data=W(d2) if wrap2 else d2)
        a2 = build.build_path(path, source_data=W(d1) if wrap1 else d1)
    except Exception as e:
        out.exc("build", e)
        return out
    try:
        eq_ab, eq_ba, eq_aa = a == b, b == a, a == a2
    except Exception as e:
        out.exc("equality-raised", e)
        return out
    if eq_ab is not eq_ba:
        out.add("symmetric", "symmetric|bound-path", f"a==b is {eq_ab}, b==a is {eq_ba}")
    if eq_aa is not True:
        out.add("copies-equal", "copies-equal|bound-path", "two paths bound to the same document compare unequal")

    def beh(p):
        # compared with Python's own == (the bound documents are compared with == by the
        # library, so 1 / True / 1.0 in the documents are not told apart here either)
        try:
            return ("ok", p.get_data(return_paths=True))
        except Exception as e:
            return ("raised", type(e).__name__)

    if d1 == d2 and exact(d1) != exact(d2):
        # the two bound documents are equal by Python's == but not type-exactly (1 / True / 1.0):
        # the library compares bound documents with ==, and the statement's atoms do not include
        # the bound document, so nothing is asserted for such pairs
        out.label("twin-bound-docs-not-asserted")
        return out
    ba, bb = beh(a), beh(b)
    differ = ba != bb
    if eq_ab is True and differ:
        out.add("equal-implies-same-behaviour", "equal-implies-same-behaviour|bound-path",
                f"paths bound to {show(d1,120)} and {show(d2,120)} compare equal but select {show(ba,120)} vs {show(bb,120)}")
    out.nontrivial = differ
    out.label("bound-docs-equal-by-==" if d1 == d2 else "bound-docs-differ", "wrapped" if (wrap1 or wrap2) else "raw")
    out.sample = f"{show(path,250)} bound to {show(d1,150)} / {show(d2,150)}"
    return out


def tests(tier):
    return [
        TestSpec("equality", gen_case, body, {"quick": 4000, "thorough": 400000}, tape=2048, fuzz={"thorough": 40000}),
        TestSpec("bound-paths", gen_bound, body_bound, {"quick": 800, "thorough": 60000}, tape=1536, fuzz={"thorough": 20000}),
    ]
