"""C04 - reported concrete paths are truthful; path modifiers mean what they say."""
import copy
from ..runner import TestSpec, Outcome
from ..terms import Prim, Part, PathT, show
from . import edits
from .. import model, build, gen as G, spec as SP
from ..snapshot import exact

ID = "C04"
RULE = (
    "C03's (document, document-guided path) pairs; the selection is computed by the reference first, then the "
    "whole modifier grid is ENUMERATED per pair: every datum modifier defined on all selected nodes (none/dtype "
    "always, length on str/list/dict nodes, map_keys/map_values on dict nodes) x multiplicity {none, first, last, "
    "single, all} x both application orders x return_paths in {False, True}. Non-trivial: >=2 selected nodes "
    "(so that first/last/single/all differ and paths must be distinct); distinct by hash of the (document, path) term. "
    "evaluations counts grid points."
)
ASSUMPTIONS = [
    "multiplicity modifiers on an EMPTY selection: only 'returns the empty value, no exception' is asserted (the statement does not say more)",
    "datum modifiers are applied only where defined on every selected node",
]

MULTIS = [None, "first", "last", "single", "all"]


def gen_case(r):
    d = G.doc(r, 4 if r.coin(60) else 3)
    p = G.guided_path(r, d, max_len=4, miss=10, mode="typed", meaningful=True)
    if r.pct() < 8:
        # a concrete walk down to a container, then ONE part over its children (the shape `DataPath(...) / part`)
        pre = G.guided_path(r, d, max_len=2, min_len=1, miss=0, mode="typed", prim_only=True)
        sel = model.ref_select(pre.parts, d)
        if sel and isinstance(sel[0][0], (list, dict)) and len(sel[0][0]) >= 2:
            p = PathT(list(pre.parts) + [Part(r.choice(["mol", "list" if isinstance(sel[0][0], list) else "map"]))])
    return d, p, r.coin()


def ex_pair(p):
    return (exact(p[0]), tuple(exact(k) for k in p[1]))


def body(case):
    doc_raw, path, shared_wrapper = case
    out = Outcome()
    # one wrapped Data object shared by every call of the grid (as a caller holding a Data
    # object would do), or the raw document
    doc = doc_raw
    parts = path.parts
    sel = model.ref_select(parts, doc) if parts else [(doc, ())]
    conc = model.is_concrete(parts)
    n = len(sel)
    out.label(f"selected:{min(n,2)}{'+' if n>=2 else ''}", "concrete" if conc else "non-concrete")
    out.nontrivial = n >= 2
    out.sample = f"{show(path,300)} on {show(doc,250)} -> {n} node(s)"
    out.evals = 0
    kind = "concrete" if conc else "non-concrete"

    try:
        base = build.build_path(path)
        concrete_left = len(parts) >= 2 and all(isinstance(x, Prim) for x in parts[:-1]) and isinstance(parts[-1], Part)
        if not conc and len(parts) >= 2 and (concrete_left or len(repr(parts)) % 2):
            # the same (non-concrete) path put together with the `/` operator: path / part, or path / path
            k = 1 + len(repr(parts)) % (len(parts) - 1)
            if all(isinstance(x, Prim) for x in parts[:-1]) and isinstance(parts[-1], Part):
                k = len(parts) - 1  # a concrete left side and one part on the right
            d_ = build.ns().d
            left = d_.DataPath(*[build.build_part(x) for x in parts[:k]])
            if len(parts) - k == 1 and isinstance(parts[k], Part):
                base = left / build.build_part(parts[k])
            else:
                base = left / d_.DataPath(*[build.build_part(x) for x in parts[k:]])
            out.label("joined-with-slash")
    except Exception as e:
        out.exc("build-path", e)
        return out
    src = build.ns().da.Data(doc_raw) if shared_wrapper else doc_raw
    out.label("shared-Data-object" if shared_wrapper else "raw-document")

    # (i)-(iii): truthfulness, distinctness, values without paths
    try:
        gp = base.get_data(src, return_paths=True)
        gv = base.get_data(src, return_paths=False)
    except Exception as e:
        out.exc("no-raise|base", e)
        return out
    # the same through Data.get(*bare parts): with and without paths must agree there too
    if parts and conc:
        try:
            bare = [p.v for p in parts]
            D = build.ns().da.Data
            bp = D(doc_raw).get(*bare, return_paths=True)
            bv = D(doc_raw).get(*bare, return_paths=False)
            if (bp is None and bv is not None) or (bp is not None and exact(bp[0]) != exact(bv)):
                out.add("values-without-paths", "values-without-paths|Data.get(*parts)", f"Data.get{tuple(bare)!r}: with paths {show(bp,120)}, without {show(bv,120)}")
            if exact(bp) != exact(gp):
                out.add("values-without-paths", "entry-points|Data.get(*parts)", f"Data.get{tuple(bare)!r} with paths {show(bp,120)} but path.get_data {show(gp,120)}")
        except Exception as e:
            out.exc("no-raise|Data.get(*parts)", e)
    pairs = None
    if not parts or conc:
        pairs = [] if gp is None else [gp]
        vals = [] if gp is None else [gv]
    else:
        if not isinstance(gp, list) or not isinstance(gv, list):
            out.add("selection", f"selection|shape|{kind}", f"a path holding a list / map part answered {show(gp,150)} / {show(gv,150)}, not with lists of matches")
            return out
        pairs, vals = list(gp), list(gv)
    for v, pth in pairs:
        try:
            node = model.walk(doc, pth)
        except Exception as e:
            out.add("truthful-paths", f"truthful-paths|unwalkable|{kind}", f"path {pth!r} not walkable in {show(doc,200)}: {e!r}")
            break
        if exact(node) != exact(v):
            out.add("truthful-paths", f"truthful-paths|wrong-node|{kind}", f"path {pth!r} reaches {show(node,100)} but value is {show(v,100)}")
            break
    keyset = [tuple(exact(k) for k in pth) for _, pth in pairs]
    if len(set(keyset)) != len(keyset):
        out.add("distinct-paths", f"distinct-paths|{kind}", f"duplicate paths {[p for _, p in pairs]!r}")
    if [exact(v) for v in vals] != [exact(v) for v, _ in pairs]:
        out.add("values-without-paths", f"values-without-paths|{kind}", f"without paths {show(vals,200)} with paths {show(pairs,200)}")
    if [ex_pair(p) for p in pairs] != [ex_pair(p) for p in sel]:
        out.add("selection", f"selection|{kind}", f"got {show(pairs,200)} expected {show(sel,200)}")
        return out

    try:
        part_specs = [SP.part_spec(p) for p in parts] if parts else None
    except Exception:
        part_specs = None
    datums = [None] + [d for d in ("dtype", "length", "map_keys", "map_values")
                       if sel and all(model.datum_defined(d, nd) for nd, _ in sel)]
    for datum in datums:
        f = model.DATUM_FUNCS[datum] if datum else (lambda x: x)
        dsel = [(f(nd), pth) for nd, pth in sel]
        if datum:
            out.label(f"datum:{datum}")
        for multi in MULTIS:
            # "ct": the modifiers handed to the DataPath constructor (datum_type= / multi_type=) instead of chained
            orders = ["dm", "md", "ct"] if (datum and multi) else ["dm", "ct"] if (datum or multi) else ["dm"]
            results = {}
            for order in orders:
                for rp in (False, True):
                    out.evals += 1
                    pt = PathT(parts, datum, multi, order)
                    tag = f"{datum or '-'}|{multi or '-'}|{kind}"
                    raised = None
                    try:
                        if order == "ct":
                            d_ = build.ns().d
                            obj = d_.DataPath(*[p.v if isinstance(p, Prim) else bp for p, bp in zip(parts, base.parts)],
                                              datum_type=getattr(d_.DataPathDatumType, datum.upper()) if datum else None,
                                              multi_type=getattr(d_.DataPathMultiType, multi.upper()) if multi else None)
                        else:
                            obj = build.apply_modifiers(base, pt)
                        got = obj.get_data(src, return_paths=rp)
                        if order != "ct" and (datum or multi) and part_specs is not None and not rp:
                            # the same modifiers written as a spec key (short forms when the datum
                            # modifier comes first, full names otherwise) must resolve identically
                            toks = []
                            if datum:
                                toks.append({"length": "len", "dtype": "type"}.get(datum, datum) if order == "dm" else datum)
                            if multi:
                                toks.append(multi)
                            if order == "md":
                                toks.reverse()
                            key = ".".join(["path"] + toks)
                            try:
                                via = build.ns().d.DataPath.from_spec({key: copy.deepcopy(part_specs)}).get_data(src, return_paths=False)
                                if exact(via) != exact(got):
                                    out.add("modifier-meaning", "modifier-meaning|spec-key", f"{key!r}: {show(via,150)} but the API-built path gives {show(got,150)}")
                            except ValueError:
                                raise
                            except Exception as e2:
                                out.exc("no-raise|spec-key", e2)
                    except ValueError as e:
                        raised = e
                    except Exception as e:
                        if order == "ct" and multi and (conc or not parts):
                            # the constructor refuses too; the statement does not name the error type of a refusal
                            raised = e
                        else:
                            out.exc(f"no-raise|{tag}", e)
                            continue
                    # expectation
                    if multi and (conc or not parts):
                        if raised is None:
                            out.add("multi-refused-on-concrete", f"multi-refused-on-concrete|{multi}", f"{multi} accepted on concrete path {show(path,200)}")
                        continue
                    if multi == "single" and n >= 2:
                        if raised is None:
                            out.add("single-errors-on-several", "single-errors-on-several", f"single() with {n} matches returned {show(got,150)}")
                        continue
                    if raised is not None:
                        out.exc(f"no-raise|{tag}", raised)
                        continue
                    elems = dsel if rp else [v for v, _ in dsel]
                    norm = (lambda x: ex_pair(x)) if rp else exact
                    if not parts or conc:
                        if n == 0:
                            exp, ok = None, got is None
                        else:
                            exp = elems[0]
                            ok = (not rp or (isinstance(got, tuple) and len(got) == 2)) and norm(got) == norm(exp)
                    elif n == 0:
                        exp, ok = [], got == []
                    elif multi in (None, "all"):
                        exp = elems
                        ok = isinstance(got, list) and len(got) == len(exp) and (not rp or all(isinstance(g, tuple) and len(g) == 2 for g in got)) and [norm(g) for g in got] == [norm(x) for x in exp]
                    else:
                        exp = elems[0] if multi in ("first", "single") else elems[-1]
                        ok = (not rp or (isinstance(got, tuple) and len(got) == 2)) and norm(got) == norm(exp)
                    if not ok:
                        out.add("modifier-meaning", f"modifier-meaning|multi={multi}" if multi else f"modifier-meaning|datum={datum}",
                                f"{show(path,200)} datum={datum} multi={multi} order={order} return_paths={rp} on {show(doc,150)}: got {show(got,200)} expected {show(exp,200)}")
                    results[(order, rp)] = got
            if len(orders) >= 2:
                for rp in (False, True):
                    for o2 in orders[1:]:
                        a, b = results.get(("dm", rp)), results.get((o2, rp))
                        if ("dm", rp) in results and (o2, rp) in results and repr(a) != repr(b):
                            out.add("order-independent", f"order-independent|{datum}|{multi}", f"dm={show(a,150)} {o2}={show(b,150)}")
    if n >= 2 and len(datums) > 1:
        out.label("nontrivial-with-datum")
    return out


def tests(tier):
    return [TestSpec("modifiers", gen_case, body, {"quick": 2500, "thorough": 200000}, tape=1024, fuzz={"thorough": 40000}),
            edits.spec("select", 1200, 100000)]
