"""C15 - casts replace exactly the castable selected nodes in a private copy."""
import copy

from ..runner import TestSpec, Outcome
from ..terms import SchemaT, RuleT, PathT, Prim, Leaf, show
from .. import model, build, gen as G
from ..snapshot import exact, aliases
from .c05 import check_rule_test

ID = "C15"
RULE = (
    "schemas of 1-4 rules, >=1 declaring a str->bool or str->int cast, CAST-DIRECTED: rule paths are drawn by walking "
    "the document towards string nodes (keys of any type, list indices, fan-out parts, nested rule paths one below "
    "the other, the empty path) on documents rich in castable ('true','True','TRUE','false',...,'3','-12',' 7 ') and "
    "uncastable ('none','abc','','1.5') strings. Oracle: reference cast (private copy, rules in schema order, nodes "
    "selected in the INPUT, replace iff str and cast succeeds, rule judged on the copy): exact(cast_data), per-rule "
    "verdicts / failing paths (failure values compared for scalars only), input type-exactly unchanged, no container "
    "of cast_data aliases the input; stand-alone Rule.test likewise. Non-trivial: >=1 successful and >=1 unsuccessful "
    "cast in one validation, or a successful cast under a non-string key / inside a list / at depth>=2."
)
ASSUMPTIONS = [
    "failure values of container nodes are live references into the shared copy (later cast rules legitimately update them): compared for scalar nodes only",
    "cast functions are parameters of the model: the string->bool table (true/false, case-insensitive) is re-stated, string->int is Python int()",
]


def c17_nodes(d):
    from . import c17
    return [(n, p) for n, p in c17.all_nodes(d)] + [(d, ())]


def gen_case(r):
    d = G.hostile_doc(r, 4 if r.coin(60) else 3)
    n = r.between(1, 4)
    rules = []
    for i in range(n):
        c = r.pct()
        if rules and c < 25:
            # nested rule path: one below an earlier rule's path
            base = r.choice(rules)
            sel = model.ref_select(base.path.parts, d) if base.path.parts else [(d, ())]
            conts = [(v, p) for v, p in sel if isinstance(v, (list, dict)) and v]
            if conts:
                node, pth = r.choice(conts)
                sub = G.guided_path(r, node, max_len=2, min_len=1, miss=5, want_str=True)
                rl = G.rule_for(r, d, mode="typed", cast_p=100, cond_depth=1)
                rl = rl.replace(path=PathT(list(base.path.parts) + sub.parts))
                rules.append(rl)
                continue
        rl = G.rule_for(r, d, mode="typed", cast_p=85 if i else 100, cond_depth=2, max_len=4, want_str=True)
        if rl.cast and c > 92:
            rl = rl.replace(path=PathT([]))
        rules.append(rl)
    # a cast rule whose condition refers to ANOTHER node through a data-path argument: the
    # reference, too, is resolved in the copy (where that node may have been cast)
    if r.pct() < 18:
        from . import c17
        cast_rules = [i for i, rl in enumerate(rules) if rl.cast and rl.path.parts]
        if cast_rules:
            i = r.choice(cast_rules)
            nodes = [(n, p) for n, p in c17.all_nodes(d) if isinstance(n, str)]
            if nodes:
                n, p = r.choice(nodes)
                ref = PathT([Prim(k) for k in p])
                nm = r.choice(["equal_to", "not_equal_to", "less_than_or_equal_to", "greater_than_or_equal_to", "in_"])
                if nm == "in_":
                    ref = PathT([Prim(k) for k in p[:-1]], "map_values" if isinstance(model.walk(d, p[:-1]), dict) else None) if p[:-1] else ref
                rules[i] = rules[i].replace(cond=Leaf("value", None, nm, kwargs={"value": ref}))
    if r.pct() < 5:
        # a concrete cast path that counts a list index from the END (-1, -2): it selects nothing (there is no such key or
        # index), so nothing is cast - although Python's own indexing would find the castable string there
        lists = [(n, p) for n, p in c17_nodes(d) if isinstance(n, list) and n]
        if lists:
            n_, p_ = r.choice(lists)
            k_ = -r.between(1, min(2, len(n_)))
            kind_ = r.choice(["bool", "int"])
            n_[k_] = r.choice(["true", "False"] if kind_ == "bool" else ["3", "-12"])
            rules.append(RuleT(PathT([Prim(x) for x in p_] + [Prim(k_)]), G.tree(r, ("value",), "typed", 1), kind_))
    # plant castable strings where a cast rule selects only uncastable nodes
    GOOD = {"bool": ["true", "True", "TRUE", "false", "False", "FALSE", "tRuE"], "int": ["3", "-12", " 7 ", "0", "٣"]}
    for rl in rules:
        if not rl.cast or not rl.path.parts:
            continue
        sel = model.ref_select(rl.path.parts, d)
        if sel and not any(isinstance(v, str) and model.cast_value(rl.cast, v)[0] for v, _ in sel) and r.pct() < 75:
            v, pth = r.choice(sel)
            if not isinstance(v, (list, dict)) or r.pct() < 30:
                model.walk(d, pth[:-1])[pth[-1]] = r.choice(GOOD[rl.cast])
    return d, SchemaT(rules), r.coin()


def body(case):
    doc, schema, wrap = case
    out = Outcome()
    ns = build.ns()
    ref = model.ref_schema_validate(schema, doc)
    # classification
    ok_n = bad_n = 0
    special = False
    for rl in schema.rules:
        if not rl.cast:
            continue
        sel = model.ref_select(rl.path.parts, doc) if rl.path.parts else [(doc, ())]
        for v, pth in sel:
            if isinstance(v, str):
                ok, nv = model.cast_value(rl.cast, v)
                if ok:
                    ok_n += 1
                    out.label(f"cast-ok:{v.strip().lower() if rl.cast=='bool' else 'int'}:{v if rl.cast=='bool' else ''}")
                    if len(pth) >= 2 or not isinstance(pth[-1], str) or isinstance(model.walk(doc, pth[:-1]), list):
                        special = True
                else:
                    bad_n += 1
    out.nontrivial = (ok_n >= 1 and bad_n >= 1) or special
    out.label("cast-fired" if ok_n else "no-cast-fired", "cast-failed" if bad_n else "no-cast-failed")
    out.sample = f"{show(schema,450)} on {show(doc,200)} -> {ok_n} ok / {bad_n} uncastable"
    before = exact(doc)
    earlier = None
    try:
        sobj = build.build_schema(schema)
        target = ns.da.Data(doc) if wrap else doc
        if wrap and len(repr(doc)) % 3 == 0:
            # the same wrapper object was validated before, by a schema declaring the OTHER casts: every validation
            # works on a private copy of its own
            out.label("wrapper-validated-before")
            other = SchemaT([rl.replace(cast={"bool": "int", "int": "bool"}.get(rl.cast)) for rl in schema.rules])
            earlier = build.build_schema(other).validate(target)
            earlier_snap = exact(earlier.cast_data)
        vd = sobj.validate(target)
    except Exception as e:
        out.exc("no-raise|validate", e)
        return out
    if earlier is not None and exact(earlier.cast_data) != earlier_snap:
        out.add("private-copy", "private-copy|earlier-result", "the cast data of an earlier validation of the same wrapper changed when the wrapper was validated again")
    if exact(vd.cast_data) != exact(ref["cast"]):
        out.add("cast-data", "cast-data", f"cast_data={show(vd.cast_data,250)} expected {show(ref['cast'],250)} (input {show(doc,200)})")
    if exact(doc) != before:
        out.add("input-unchanged", "input-unchanged", f"input changed to {show(doc,300)}")
    if aliases(vd.cast_data, doc) and exact(vd.cast_data) != exact(doc):
        out.add("private-copy", "private-copy|aliasing", "a container of cast_data is a container of the input document")
    if len(vd.rule_tests) == len(ref["tests"]):
        for rt, (i, rref) in zip(vd.rule_tests, ref["tests"]):
            check_rule_test(out, rt, rref, ref["cast"], prefix=f"{'cast' if schema.rules[i].cast else 'plain'}-rule-", scalars_only=True)
    else:
        out.add("verdicts", "verdicts|count", f"{len(vd.rule_tests)} rule tests")
    if vd.is_valid is not ref["valid"] or vd.num_failures != ref["nfail"]:
        out.add("verdicts", "verdicts|aggregate", f"is_valid={vd.is_valid} nfail={vd.num_failures} expected {ref['valid']} {ref['nfail']}")
    # stand-alone Rule.test for each cast rule
    for rl in schema.rules:
        if not rl.cast:
            continue
        one = model.ref_schema_validate(SchemaT([rl]), doc)
        try:
            rt = build.build_rule(rl).test(ns.da.Data(doc) if not wrap else doc)
        except Exception as e:
            out.exc("no-raise|rule-test", e)
            break
        try:
            got = rt.data.get_original() if hasattr(rt.data, "get_original") else rt.data
        except Exception as e:
            out.exc("rule-test-data", e)
            break
        if exact(got) != exact(one["cast"]):
            out.add("cast-data", "cast-data|rule-test", f"Rule.test(doc).data={show(got,250)} expected {show(one['cast'],250)}")
        check_rule_test(out, rt, one["tests"][0][1], one["cast"], prefix="standalone-", scalars_only=True)
        if exact(doc) != before:
            out.add("input-unchanged", "input-unchanged|rule-test", f"input changed to {show(doc,300)}")
            break
    # the same schema assembled in two steps: the cast-free rules first (and used once), the cast rules added afterwards
    # under the empty root - what is cast is decided by the rules the schema holds when it validates
    free = [rl for rl in schema.rules if not rl.cast]
    cst = [rl for rl in schema.rules if rl.cast]
    if cst and not out.violations and len(repr(doc)) % 2:
        out.label("assembled-in-two-steps")
        fs = [free[i] for i in model.rule_order(free)]
        cs = [cst[i] for i in model.rule_order(cst)]
        ref2 = model.ref_schema_validate(SchemaT(fs + cs), doc)
        try:
            s0 = build.build_schema(SchemaT(fs))
            s0.validate(copy.deepcopy(doc))
            s0.add_schema(build.build_schema(SchemaT(cs)), ns.d.DataPath())
            vd2 = s0.validate(doc)
        except Exception as e:
            out.exc("no-raise|two-steps", e)
            return out
        if exact(vd2.cast_data) != exact(ref2["cast"]):
            out.add("cast-data", "cast-data|two-steps", f"cast rules added after a first use: cast_data={show(vd2.cast_data,250)} expected {show(ref2['cast'],250)}")
        elif vd2.is_valid is not ref2["valid"] or vd2.num_failures != ref2["nfail"]:
            out.add("verdicts", "verdicts|two-steps", f"is_valid={vd2.is_valid} nfail={vd2.num_failures} expected {ref2['valid']} {ref2['nfail']}")
        if exact(doc) != before:
            out.add("input-unchanged", "input-unchanged|two-steps", f"input changed to {show(doc,300)}")
    return out


def tests(tier):
    return [TestSpec("casts", gen_case, body, {"quick": 4000, "thorough": 400000}, tape=2048, fuzz={"thorough": 40000})]
