"""C13 - rules and schemas survive the JSON round trip, casts included."""
import copy
import json
import warnings

from ..runner import TestSpec, Outcome
from ..terms import SchemaT, RuleT, PathT, show
from .. import model, build, gen as G
from ..snapshot import exact
from .c05 import check_rule_test

ID = "C13"
RULE = (
    "schemas of 0-4 rules whose conditions are in C11's fragment (meaningful DSL, JSON-representable arguments) and whose "
    "paths are document-guided (primitive, conditioned and labelled parts), with str->bool / str->int casts on ~50% of "
    "rules (cast-directed), on hostile documents so that casts and failures really occur. Oracle: "
    "json.dumps(schema.to_json_like()) succeeds; Schema.from_json_like(json.loads(text)) == schema (both directions); "
    "is_valid / num_failures / failing paths per rule / exact cast_data agree between the original, the rebuilt schema and "
    "the reference on 2 documents; the same for every single rule through Rule.to_json_like / from_json_like. "
    "35% of cases are HISTORIES: the schema is serialised, grown with add_schema(T, root) and serialised again (the grown schema is modelled as in C18). Non-trivial: >=1 rule whose cast fires on a document, or >=2 rules; distinct by hash of the (schema, documents) term."
)
ASSUMPTIONS = ["rule docs are not part of the JSON-like form (Rule equality and to_json_like ignore them)"]


def gen_case(r):
    d = G.hostile_doc(r, 3)
    n = r.between(0, 4)
    rules = [G.rule_for(r, d, mode="typed", cast_p=50, cond_depth=2, max_len=3, meaningful=True, jsonable=True, labels=True)
             for _ in range(n)]
    # doc blocks (the JSON-like form does not carry them; they play no part in equality or in verdicts)
    rules = [rl.replace(doc=G.doc_block(r)) if r.pct() < 35 else rl for rl in rules]
    # a condition with data-path arguments (modifiers defined on the first document)
    patharg = False
    if rules and r.pct() < 22:
        from . import c17
        i = r.below(len(rules))
        rules[i] = rules[i].replace(cond=c17.gen_leaf_with_paths(r, d, jsonable=True), cast=None)
        patharg = True
    if rules and r.pct() < 12:
        from . import c11
        from ..terms import Leaf
        i = r.below(len(rules))
        rules[i] = rules[i].replace(cond=Leaf("value", None, r.choice(["equal_to", "not_equal_to", "in_"]), kwargs={"value": c11.pathy_literal(r)}))
    # plant castable strings as in C15
    GOOD = {"bool": ["true", "True", "FALSE", "false"], "int": ["3", "-12", " 7 "]}
    for rl in rules:
        if rl.cast and rl.path.parts:
            sel = model.ref_select(rl.path.parts, d)
            if sel and not any(isinstance(v, str) and model.cast_value(rl.cast, v)[0] for v, _ in sel) and r.pct() < 70:
                v, pth = r.choice(sel)
                if not isinstance(v, (list, dict)):
                    model.walk(d, pth[:-1])[pth[-1]] = r.choice(GOOD[rl.cast])
    # history: serialise, add a second schema under a root, serialise again
    extra = None
    if r.pct() < 35:
        root = G.guided_path(r, d, max_len=2, miss=10, mode="typed", prim_only=True)
        sel = model.ref_select(root.parts, d) if root.parts else [(d, ())]
        conts = [v for v, _ in sel if isinstance(v, (dict, list)) and v]
        sub = r.choice(conts) if conts else d
        T = G.schema_for(r, sub, min_rules=1, max_rules=2, mode="typed", cast_p=50, cond_depth=1, max_len=2, meaningful=True, jsonable=True)
        extra = (T, root, r.coin(70))
    return SchemaT(rules), [d, G.hostile_doc(r, 3)], extra, patharg


def summ(vd, schema):
    order = model.rule_order(schema.rules)
    return (vd.is_valid, vd.num_failures, [[exact(tuple(f.path)) for f in rt.failures] for rt in vd.rule_tests], exact(vd.cast_data))


def body(case):
    schema, docs, extra, patharg = case
    out = Outcome()
    ns = build.ns()
    if patharg:
        out.label("path-valued-argument")
    fired = False
    for rl in schema.rules:
        if rl.cast:
            for d in docs:
                sel = model.ref_select(rl.path.parts, d) if rl.path.parts else []
                if any(model.cast_value(rl.cast, v)[0] for v, _ in sel):
                    fired = True
    out.nontrivial = fired or len(schema.rules) >= 2
    out.label(f"rules:{len(schema.rules)}", "cast-fires" if fired else "no-cast-fires")
    out.sample = show(schema, 500)
    def refused(sobj):
        # (rule paths, and the data paths given as condition arguments - at the top level of an argument or one level down)
        def paths_in(x, dpt=0):
            if type(x).__name__ == "DataPath":
                yield x
            elif dpt == 0 and isinstance(x, (list, tuple)):
                for i in x:
                    yield from paths_in(i, 1)
            elif dpt == 0 and isinstance(x, dict):
                for i in x.values():
                    yield from paths_in(i, 1)

        def leaves_of(cnd):
            if hasattr(cnd, "children"):
                for ch in cnd.children:
                    yield from leaves_of(ch)
            else:
                yield cnd

        for r_ in sobj.rules:
            try:
                r_.path.to_part_specs()
                for lo in leaves_of(r_.condition):
                    cal = getattr(lo, "callable", None)
                    if cal is None:
                        continue
                    for a in list(cal.args) + list(cal.kwargs.values()):
                        for po in paths_in(a):
                            po.to_part_specs()
            except Exception:
                return True
        return False

    try:
        S = build.build_schema(schema)
        if refused(S):
            # paths the library refuses to serialise are outside the property's fragment (C12 allows refusal)
            out.label("path-serialisation-refused-skipped")
            out.nontrivial = False
            return out
        if extra is not None:
            T, root, prime = extra
            if prime:
                S.to_json_like()  # serialised once before it grows
            S.add_schema(build.build_schema(T), build.build_path(root))
            # the model of the grown schema (as C18): previous rules, then T's re-rooted
            own = [schema.rules[i] for i in model.rule_order(schema.rules)]
            new = [RuleT(PathT(list(root.parts) + list(t.path.parts)), t.cond, t.cast) for t in (T.rules[i] for i in model.rule_order(T.rules))]
            schema = SchemaT(sorted(own + new, key=lambda x: len(x.path.parts)))
            out.label("after-add_schema", "primed" if prime else "unprimed")
    except Exception as e:
        out.exc("build", e)
        return out
    if refused(S):
        out.label("path-serialisation-refused-skipped")
        out.nontrivial = False
        return out
    try:
        js = S.to_json_like()
    except Exception as e:
        out.exc("serialise", e)
        return out
    try:
        text = json.dumps(js)
    except Exception as e:
        out.add("real-json", "real-json|schema", f"json.dumps failed: {e!r} on {show(js,300)}")
        return out
    try:
        with warnings.catch_warnings():
            warnings.simplefilter("ignore")
            S2 = ns.s.Schema.from_json_like(json.loads(text))
    except Exception as e:
        out.exc("rebuild", e)
        return out
    try:
        if not (S2 == S and S == S2):
            out.add("rebuilt-equal", "rebuilt-equal|schema", f"{show(S.rules,300)} -> {text[:300]} -> {show(S2.rules,300)}")
            return out
    except Exception as e:
        out.exc("equality", e)
        return out
    for di, d in enumerate(docs):
        ref = model.ref_schema_validate(schema, d)
        try:
            a, b = S.validate(copy.deepcopy(d)), S2.validate(copy.deepcopy(d))
        except Exception as e:
            out.exc("validate", e)
            return out
        if summ(a, schema) != summ(b, schema):
            out.add("same-behaviour", "same-behaviour|schema", f"original {show(summ(a, schema),200)} rebuilt {show(summ(b, schema),200)} on {show(d,150)}")
            return out
        if patharg and di > 0:
            continue  # the path arguments' modifiers are defined on the first document only (as in C17)
        if b.is_valid is not ref["valid"] or b.num_failures != ref["nfail"] or exact(b.cast_data) != exact(ref["cast"]):
            out.add("same-behaviour", "same-behaviour|vs-reference", f"rebuilt valid={b.is_valid} nfail={b.num_failures} cast={show(b.cast_data,120)}; reference {ref['valid']} {ref['nfail']} {show(ref['cast'],120)}")
            return out
    # equality must not depend on the two schemas having been used
    try:
        if not (S2 == S and S == S2):
            out.add("rebuilt-equal", "rebuilt-equal|schema-after-validation", "the rebuilt schema equals the original before both validate documents, but not after")
            return out
    except Exception as e:
        out.exc("equality", e)
        return out
    # single rules
    for rl in schema.rules:
        try:
            R = build.build_rule(rl)
            text = json.dumps(R.to_json_like())
            with warnings.catch_warnings():
                warnings.simplefilter("ignore")
                R2 = ns.r.Rule.from_json_like(json.loads(text))
        except TypeError as e:
            if "JSON serializable" in str(e):
                out.add("real-json", "real-json|rule", f"json.dumps failed: {e!r}")
            else:
                out.exc("rule-roundtrip", e)
            return out
        except Exception as e:
            out.exc("rule-roundtrip", e)
            return out
        if not (R2 == R and R == R2):
            out.add("rebuilt-equal", "rebuilt-equal|rule", f"{show(R,250)} -> {text[:250]} -> {show(R2,250)}")
            return out
        d = docs[0]
        ref = model.ref_schema_validate(SchemaT([rl]), d)
        try:
            rt = R2.test(copy.deepcopy(d))
        except Exception as e:
            out.exc("rule-test", e)
            return out
        check_rule_test(out, rt, ref["tests"][0][1], ref["cast"], prefix="rebuilt-rule-", scalars_only=True)
        if exact(rt.data.get_original()) != exact(ref["cast"]):
            out.add("same-behaviour", "same-behaviour|rule-cast-data", f"cast data {show(rt.data.get_original(),150)} expected {show(ref['cast'],150)}")
    return out


# ------------------------------------------------------------------ a cast mapping the caller still holds
def gen_held(r):
    d = G.hostile_doc(r, 3)
    rl = G.rule_for(r, d, mode="typed", cast_p=100, cond_depth=1, max_len=3, meaningful=True, jsonable=True)
    return d, rl, r.coin()


def body_held(case):
    """Rule(path, condition, cast=m) with a mapping m the caller keeps; the rule is serialised, then the caller changes
    m (the other cast).  Whether the rule follows is not stated; whatever it now does, its serialised form does the same:
    the rebuilt rule gives the same verdict, failures and cast data."""
    doc, rl, in_schema = case
    out = Outcome()
    ns = build.ns()
    out.nontrivial = True
    out.sample = f"{show(rl,300)} with a caller-held cast mapping, on {show(doc,150)}"
    try:
        first, second = (int, bool) if rl.cast == "int" else (bool, int)
        held = {str: ns.ca.CAST_LOOKUP[(str, first)]}
        robj = ns.r.Rule(path=build.build_path(rl.path), condition=build.build_cond(rl.cond), cast=held)
        holder = ns.s.Schema([robj]) if in_schema else robj
        holder.to_json_like()
        held[str] = ns.ca.CAST_LOOKUP[(str, second)]
        js = json.loads(json.dumps(holder.to_json_like()))
        with warnings.catch_warnings():
            warnings.simplefilter("ignore")
            back = ns.s.Schema.from_json_like(js) if in_schema else ns.r.Rule.from_json_like(js)
    except Exception as e:
        # (a path whose serialisation refuses is outside the fragment)
        out.label("refused-or-raised")
        out.nontrivial = False
        return out
    try:
        if in_schema:
            a, b = holder.validate(copy.deepcopy(doc)), back.validate(copy.deepcopy(doc))
            sa = (a.is_valid, a.num_failures, [[exact(tuple(f.path)) for f in rt.failures] for rt in a.rule_tests], exact(a.cast_data))
            sb = (b.is_valid, b.num_failures, [[exact(tuple(f.path)) for f in rt.failures] for rt in b.rule_tests], exact(b.cast_data))
        else:
            a, b = holder.test(copy.deepcopy(doc)), back.test(copy.deepcopy(doc))
            sa = (a.is_valid, [exact(tuple(f.path)) for f in a.failures], exact(a.data.get_original() if hasattr(a.data, "get_original") else a.data))
            sb = (b.is_valid, [exact(tuple(f.path)) for f in b.failures], exact(b.data.get_original() if hasattr(b.data, "get_original") else b.data))
    except Exception as e:
        out.exc("held-cast-behaviour", e)
        return out
    if sa != sb:
        out.add("same-behaviour", "same-behaviour|caller-held-cast", f"original now: {show(sa,250)}; rebuilt from its serialised form: {show(sb,250)}")
    return out


def tests(tier):
    return [TestSpec("caller-held-cast", gen_held, body_held, {"quick": 600, "thorough": 50000}, tape=2048),
            TestSpec("schema-json", gen_case, body, {"quick": 3000, "thorough": 250000}, tape=3072, fuzz={"thorough": 15000})]
