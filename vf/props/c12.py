"""C12 - serialised data paths rebuild to an equivalent path, or serialisation refuses."""
import copy
import json

from ..runner import TestSpec, Outcome
from ..terms import Null, Leaf, Op, Prim, Part, PathT, show, simp
from .. import model, build, gen as G, spec as SP
from ..snapshot import exact
from . import c10

ID = "C12"
RULE = (
    "document-guided paths (primitive parts of every key type, map / list / map-or-list parts with equality and "
    "non-equality key/index conditions, value conditions, combined conditions, labels in ~40% of container parts; "
    "condition arguments JSON-representable) built three ways: through the Python API, from part specs (any spelling) "
    "and from delimiter strings. Oracle: to_part_specs() either raises (refusal accepted) or the specs survive "
    "json.dumps, and the path rebuilt from json.loads(json.dumps(specs)) selects the same nodes with the same concrete "
    "paths as the original AND as the reference walk on 2 probe documents, equals the original when that was built "
    "from specs, keeps labels, and to_json_like() agrees with to_part_specs(). Non-trivial: >=1 conditioned or labelled "
    "container part and a non-empty selection on some probe; distinct by hash of the (path, documents) term."
)
ASSUMPTIONS = ["condition arguments inside path parts are JSON-representable values or type objects"]


def gen_case(r):
    d = G.doc(r, 3, sc=lambda rr: G.json_value(rr, 0))
    route = r.choice(["api", "spec", "spec", "str"])
    if route == "str":
        toks, delim, d2 = c10.gen_str(r)
        return ("str", toks, delim), [d2, d], None
    p = G.guided_path(r, d, max_len=4, miss=12, mode="typed", labels=True, meaningful=True, jsonable=True, cond_depth=3)
    d2 = G.doc(r, 3, sc=lambda rr: G.json_value(rr, 0))
    if r.pct() < 15:
        # a part whose condition argument holds a path-looking mapping at depth 0, 1 or deeper
        from . import c11
        lit = c11.special_arg(r)
        while isinstance(lit, PathT):
            lit = c11.pathy_literal(r)
        if r.pct() < 30:
            # a literal mapping whose only key is spelled like the callable's own parameter
            lit = {r.choice(["value", "key", "keys", "N"]): G.json_value(r, 0)}
        cond = Leaf("value", None, r.choice(["equal_to", "not_equal_to"]), kwargs={"value": lit})
        parts = list(p.parts)
        part = Part(r.choice(["map", "list", "mol"]), value=cond, label=r.choice([None, "L"]))
        if parts and r.coin():
            parts[r.below(len(parts))] = part
        else:
            parts.append(part)
        p = PathT(parts)
    if route == "api" and r.pct() < 8:
        # a type the library's type-name table does not know: serialisation may refuse, never lie
        # (only the single-type form: there the library refuses; type lists holding a type outside
        #  its table are outside the domain - JSON/YAML documents hold no tuples)
        tcond = Leaf("value", "dtype", r.choice(["equal_to", "not_equal_to"]), kwargs={"value": tuple})
        parts = list(p.parts) + [Part(r.choice(["map", "list", "mol"]), value=tcond)]
        p = PathT(parts)
    if route == "api" and r.pct() < 6:
        # a condition on the data type whose argument is the NAME of a type (a string) instead of the type: it selects
        # nothing; written as the bare name it would be read back as the type - refuse, or write it faithfully
        nm = r.choice(["int", "str", "list", "dict", "bool", "float", "INT", "abc"])
        tc = r.choice([Leaf("value", "dtype", "equal_to", kwargs={"value": nm}),
                       Leaf("value", "dtype", "in_", kwargs={"value": [nm, str] if r.coin() else [nm]}),
                       Leaf("value", None, "is_instance", args=(nm,) if r.coin() else (int, nm))])
        p = PathT(list(p.parts) + [Part(r.choice(["map", "list", "mol"]), value=tc)])
    if r.pct() < 8:
        # a variable-argument callable given no argument at all (its serialised form is an empty list); the lazily
        # evaluated ones (items_contain, keys_contain_any_of ...) are left out: on a non-mapping their meaning with
        # nothing to look up is not documented
        zc = Leaf("value", None, r.choice(["keys_equal_to", "allowed_keys", "required_keys", "forbidden_keys"]), args=(), kwargs={})
        parts = list(p.parts) + [Part(r.choice(["map", "list", "mol"]), value=zc)]
        p = PathT(parts)
    spec = None
    if route == "spec":
        spec = SP.part_specs(p.parts, SP.Spelling(r))
    return (route, p), [d, d2], spec


def tuples_to_lists(x):
    if isinstance(x, (list, tuple)):
        return [tuples_to_lists(i) for i in x]
    if isinstance(x, dict):
        return {k: tuples_to_lists(v) for k, v in x.items()}
    return x


def body(case):
    how, probes, spec = case
    out = Outcome()
    ns = build.ns()
    try:
        if how[0] == "str":
            _, toks, delim = how
            s = delim.join(toks)
            if s and s.split(delim) != toks:
                return out
            parts = [c10.token_part(t) for t in toks] if s else []
            p = ns.d.DataPath.from_str(s, delimiter=delim)
        elif how[0] == "spec":
            parts = how[1].parts
            p = ns.d.DataPath.from_part_specs(*copy.deepcopy(spec))
        else:
            parts = how[1].parts
            p = build.build_path(how[1])
    except Exception as e:
        out.exc("build", e)
        return out
    conditioned = any(isinstance(x, Part) and (x.label or not all(isinstance(simp(c), Null) for c in (x.key, x.index, x.value))) for x in parts)
    labelled = any(isinstance(x, Part) and x.label for x in parts)
    sels = [model.ref_select(parts, pd) if parts else [(pd, ())] for pd in probes]
    out.nontrivial = conditioned and any(sels)
    out.label(f"route:{how[0]}", "conditioned" if conditioned else "plain", *( ["labelled"] if labelled else []))
    out.sample = f"{how[0]}: {show(parts,400)}"
    if len(repr(parts)) % 2:
        # a modifier copy of the path is derived and serialised first (what is written for a path is its own)
        try:
            q = p.length() if len(repr(parts)) % 4 == 1 else p.dtype()
            q.to_spec()
            out.label("derived-copy-serialised-first")
        except Exception:
            pass
    try:
        specs = p.to_part_specs()
    except Exception as e:
        # refusal (any raise) is allowed by the statement - but a refusal leaves nothing behind: asked again, the path
        # refuses again or is written faithfully (checked below like any other serialisation)
        out.label("refused")
        try:
            specs = p.to_part_specs()
            out.label("refused-then-emitted")
        except Exception:
            return out
    try:
        jl = p.to_json_like()
        if exact(tuples_to_lists(jl)) != exact(tuples_to_lists(specs)):
            out.add("json-like-agrees", "json-like-agrees", f"to_json_like {show(jl,200)} vs to_part_specs {show(specs,200)}")
    except Exception as e:
        out.exc("to_json_like", e)
    try:
        loaded = json.loads(json.dumps(specs))
    except Exception as e:
        out.add("json-compatible", "json-compatible|" + how[0], f"specs {show(specs,300)}: {e!r}")
        return out
    if exact(loaded) != exact(tuples_to_lists(specs)):
        out.add("json-compatible", "json-changed|" + how[0], f"specs {show(specs,250)} come back as {show(loaded,250)}")
        return out
    try:
        p2 = ns.d.DataPath.from_part_specs(*loaded)
    except Exception as e:
        out.exc("rebuild", e)
        return out
    for pd, sel in zip(probes, sels):
        try:
            a = p.get_data(pd, return_paths=True)
            b = p2.get_data(pd, return_paths=True)
        except Exception as e:
            out.exc("select", e)
            return out
        conc_a, conc_b = p.is_concrete, p2.is_concrete

        def norm(x, conc):
            if not parts:
                return c10.sel_norm([x])
            if conc:
                return [] if x is None else c10.sel_norm([x])
            return c10.sel_norm(x)

        na, nb, ne = norm(a, conc_a), norm(b, conc_b), c10.sel_norm(sel)
        if (isinstance(a, list)) != (isinstance(b, list)):
            # one answers with a list of matches, the other with a single match / None: not the same selection
            out.add("selects-same", "selects-same|shape|" + how[0],
                    f"{show(parts,250)} -> specs {show(specs,200)}; on {show(pd,120)} original {show(a,120)} rebuilt {show(b,120)}")
            return out
        if nb != na or nb != ne:
            out.add("selects-same", "selects-same|" + ("conditioned" if conditioned else "plain") + "|" + how[0],
                    f"{show(parts,250)} -> specs {show(specs,200)}; on {show(pd,120)} original {show(a,120)} rebuilt {show(b,120)} reference {show(sel,120)}")
            return out
    # DataPath.to_spec: the same part specs under the key that names this path's own modifiers
    if not out.violations:
        try:
            full = json.loads(json.dumps(p.to_spec()))
            p3 = ns.d.DataPath.from_spec(full)
            for pd in probes:
                a = p.get_data(pd, return_paths=True)
                b = p3.get_data(pd, return_paths=True)
                if exact(a) != exact(b) and c10.sel_norm(a if isinstance(a, list) else [a] if a is not None else []) != c10.sel_norm(b if isinstance(b, list) else [b] if b is not None else []):
                    out.add("selects-same", "selects-same|to_spec|" + how[0], f"{show(parts,200)}: to_spec {show(full,200)}; on {show(pd,120)} original {show(a,100)} rebuilt {show(b,100)}")
                    return out
        except Exception as e:
            out.exc("to_spec", e)
            return out
    # a sub-path taken from the (already serialised) path serialises as what IT selects
    if len(parts) >= 2 and not out.violations:
        k = 1 + len(repr(parts)) % (len(parts) - 1)
        try:
            sl = p[0:k]
            try:
                sl_specs = json.loads(json.dumps(sl.to_part_specs()))
            except Exception:
                sl_specs = None
                out.label("slice-refused")
            if sl_specs is not None:
                sl2 = ns.d.DataPath.from_part_specs(*sl_specs)
                for pd in probes:
                    a = sl.get_data(pd, return_paths=True)
                    b = sl2.get_data(pd, return_paths=True)
                    nrm = lambda x, conc: ([] if x is None else c10.sel_norm([x])) if conc else c10.sel_norm(x)
                    na, nb, ne = nrm(a, sl.is_concrete), nrm(b, sl2.is_concrete), c10.sel_norm(model.ref_select(parts[:k], pd))
                    if nb != na or nb != ne or isinstance(a, list) != isinstance(b, list):
                        out.add("selects-same", "selects-same|slice|" + how[0],
                                f"{show(parts,200)}[0:{k}] -> specs {show(sl_specs,150)}; on {show(pd,120)} slice {show(a,100)} rebuilt {show(b,100)}")
                        return out
                out.label("slice-checked")
        except Exception as e:
            out.exc("slice", e)
            return out
    if how[0] == "spec":
        try:
            if not (p2 == p and p == p2):
                out.add("equal-to-original", "equal-to-original", f"{show(p,250)} rebuilt as {show(p2,250)} via {show(specs,200)}")
        except Exception as e:
            out.exc("equality", e)
    # labels are part of a part's equality: they must survive when the original came from specs
    # (for API-built originals the statement only asks for the same selection)
    if how[0] == "spec":
        l1 = [getattr(x, "label", None) for x in p.parts]
        l2 = [getattr(x, "label", None) for x in p2.parts]
        if l1 != l2:
            out.add("equal-to-original", "labels-dropped", f"labels {l1} rebuilt as {l2}")
    return out


def tests(tier):
    return [TestSpec("part-specs-roundtrip", gen_case, body, {"quick": 4000, "thorough": 400000}, tape=1536, fuzz={"thorough": 40000})]
