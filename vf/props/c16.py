"""C16 - parsing a spec does not change the spec; re-parsing gives the same object."""
import copy
import json
import warnings

from ..runner import TestSpec, Outcome
from ..terms import Null, Leaf, Op, Prim, Part, PathT, RuleT, SchemaT, show
from .. import model, build, gen as G, spec as SP
from ..snapshot import exact_ordered, exact
from . import c09, c11

ID = "C16"
RULE = (
    "well-formed spec structures from the C09/C10 spellers - conditions (with data-path arguments in lists and mappings, "
    "escaped '\\\\path' literals, and/or/xor lists), part specs (long and dotted-shorthand forms, labels), path specs, "
    "rule specs with cast and doc blocks in every accepted shape, schema JSON - and a history of 2-6 parses of the SAME "
    "structure through any applicable entry point (ConditionLike.from_spec / from_json_like, ContainerValue.from_spec, "
    "DataPath.from_spec / from_part_specs, Rule.from_spec / from_json_like, Schema.from_json_like), interleaved with "
    "parses of nested sub-structures of the same object graph. After EVERY parse the structure must be type-exactly (and "
    "order-exactly) equal to its snapshot before the first parse; every parse must succeed; the k-th result must equal "
    "the first (both directions) and behave identically on a probe document. Non-trivial: the spec contains >=1 of {cast, "
    "doc block, shorthand part, data-path argument, escaped key} and is parsed >=2 times."
)
ASSUMPTIONS = ["specs are well-formed (C19 covers malformed ones)"]


def gen_case(r):
    d = G.hostile_doc(r, 3)
    cls = r.choice(["cond", "cond", "part", "path", "rule", "rule", "schema"])
    sp = SP.Spelling(r)
    feats = set()
    if cls == "cond":
        if r.coin(55):
            leaf, spec, _, _ = c09.gen_patharg(r)
            feats.add("path-or-escaped-arg")
            t = leaf
            if r.coin(40):
                o = G.tree(r, ("value",), "typed", 1, meaningful=True)
                t = Op(r.choice(["and", "or", "xor"]), leaf, o)
            spec = SP.cond_spec(t, sp)
        else:
            t = G.tree(r, ("value",), "typed", r.between(0, 3), meaningful=True)
            spec = SP.cond_spec(t, sp)
    elif cls == "part":
        t = G.blind_part(r, "typed", 2, labels=True, meaningful=True)
        if isinstance(t, Prim):
            t = Part(r.choice(["map", "list", "mol"]), value=G.tree(r, ("value",), "typed", 1, meaningful=True), label="L")
        spec = SP.part_spec(t, sp)
    elif cls == "path":
        t = G.guided_path(r, d, max_len=3, miss=15, labels=True, meaningful=True)
        if r.coin(40):
            t.datum = r.choice(["length", "dtype"])
        spec = SP.path_spec(t, sp)
    elif cls == "rule":
        t = G.rule_for(r, d, mode="typed", cast_p=60, cond_depth=2, max_len=3, with_doc=True, meaningful=True)
        if r.coin(35):
            leaf, _, _, _ = c09.gen_patharg(r)
            t = t.replace(cond=Op("and", t.cond, leaf) if r.coin() else leaf)
            feats.add("path-or-escaped-arg")
        spec = SP.rule_spec(t, sp)
        if t.cast:
            feats.add("cast")
        if "doc" in spec:
            feats.add("doc")
    else:
        rules = [G.rule_for(r, d, mode="typed", cast_p=60, cond_depth=1, max_len=3, with_doc=False, meaningful=True)
                 for _ in range(r.between(1, 3))]
        t = SchemaT(rules)
        spec = [SP.rule_spec(rl, SP.Spelling()) for rl in rules]  # JSON-like form: a list of rule specs
        for s_, rl in zip(spec, rules):
            s_.setdefault("cast", SP.cast_spec(rl.cast))
        if any(rl.cast for rl in rules):
            feats.add("cast")
    if "shorthand" in sp.dims:
        feats.add("shorthand")
    nparse = r.between(2, 6)
    prog = [("parse", r.below(2)) if r.pct() < 75 else ("sub", r.below(4)) for _ in range(nparse)]
    prog[0] = ("parse", r.below(2))
    return cls, spec, sorted(feats), prog, d


def entry_points(cls):
    ns = build.ns()
    if cls == "cond":
        return [ns.c.ConditionLike.from_spec, ns.c.ConditionLike.from_json_like]
    if cls == "part":
        return [ns.d.ContainerValue.from_spec]
    if cls == "path":
        return [ns.d.DataPath.from_spec, ns.d.DataPath.from_json_like]
    if cls == "rule":
        return [ns.r.Rule.from_spec, ns.r.Rule.from_json_like]
    return [ns.s.Schema.from_json_like, lambda spec: ns.s.Schema(ns.s.Schema.init_rules(spec))]


def sub_parsers(cls, spec, k):
    """Parsers of nested sub-structures of the same object graph."""
    ns = build.ns()
    subs = []
    if cls == "rule":
        subs.append(lambda: ns.c.ConditionLike.from_spec(spec["condition"]))
        subs.append(lambda: ns.d.DataPath.from_part_specs(*spec["path"]))
        for p in spec["path"]:
            if isinstance(p, dict):
                subs.append(lambda p=p: ns.d.ContainerValue.from_spec(p))
    elif cls == "schema":
        for rs in spec:
            subs.append(lambda rs=rs: ns.r.Rule.from_spec(rs))
            subs.append(lambda rs=rs: ns.c.ConditionLike.from_spec(rs["condition"]))
    elif cls == "path":
        parts = next(iter(spec.values()))
        subs.append(lambda: ns.d.DataPath.from_part_specs(*parts))
        for p in parts:
            if isinstance(p, dict):
                subs.append(lambda p=p: ns.d.ContainerValue.from_spec(p))
    elif cls == "part":
        for key in ("key", "index", "value", "condition"):
            if isinstance(spec.get(key), dict):
                subs.append(lambda key=key: ns.c.ConditionLike.from_spec(spec[key]))
    elif cls == "cond":
        k0, v0 = next(iter(spec.items())) if spec else (None, None)
        if k0 in ("and", "or", "xor") and isinstance(v0, list):
            for item in v0:
                subs.append(lambda item=item: ns.c.ConditionLike.from_spec(item))
        elif isinstance(v0, dict):
            subs.append(lambda: ns.d.DataPath.from_spec(v0))
        elif isinstance(v0, list):
            for item in v0:
                if isinstance(item, dict):
                    subs.append(lambda item=item: ns.d.DataPath.from_spec(item))
    if not subs:
        return None
    return subs[k % len(subs)]


def behaviour(cls, obj, doc):
    ns = build.ns()
    try:
        if cls == "cond":
            return ("ok", ns.r.Rule([], obj).test(doc).is_valid if False else obj.filter(doc, source_data=ns.da.Data(doc)).result)
        if cls == "part":
            return ("ok", exact(ns.d.DataPath(obj).get_data(doc, return_paths=True)))
        if cls == "path":
            return ("ok", exact(obj.get_data(doc)))
        if cls == "rule":
            rt = obj.test(doc)
            return ("ok", rt.is_valid, [exact(tuple(f.path)) for f in rt.failures], exact(rt.data.get_original()))
        vd = obj.validate(doc)
        return ("ok", vd.is_valid, vd.num_failures, exact(vd.cast_data))
    except Exception as e:
        return ("raised", type(e).__name__)


def body(case):
    cls, spec, feats, prog, doc = case
    out = Outcome()
    spec = copy.deepcopy(spec)  # this is the caller's structure, parsed repeatedly
    snap = exact_ordered(spec)
    eps = entry_points(cls)
    first = None
    nparsed = 0
    out.label(f"class:{cls}", *[f"feat:{f}" for f in feats])
    out.sample = f"{cls}: {show(spec,500)} program={prog}"
    out.evals = 0
    for i, (op, k) in enumerate(prog):
        out.evals += 1
        if op == "sub":
            fn = sub_parsers(cls, spec, k)
            if fn is None:
                continue
            try:
                with warnings.catch_warnings():
                    warnings.simplefilter("ignore")
                    fn()
            except Exception as e:
                if any(c.__name__ == "MalformedDataPathSpec" for c in type(e).__mro__):
                    pass  # the probed argument is a literal, not a path spec (the library probes the same way)
                else:
                    out.exc(f"sub-parse-{nparsed and 'after-parse' or 'first'}", e)
                    break
            if exact_ordered(spec) != snap:
                out.add("spec-unchanged", f"spec-unchanged|sub|{cls}", f"after parsing a sub-structure (step {i}) the spec is {show(spec,400)}")
                break
            continue
        ep = eps[k % len(eps)]
        try:
            with warnings.catch_warnings():
                warnings.simplefilter("ignore")
                obj = ep(spec)
        except Exception as e:
            out.exc("first-parse" if nparsed == 0 else "re-parse", e)
            break
        nparsed += 1
        if exact_ordered(spec) != snap:
            out.add("spec-unchanged", f"spec-unchanged|{cls}", f"after parse #{nparsed} the caller's spec is {show(spec,450)}")
            break
        if first is None:
            first = obj
            first_beh = behaviour(cls, obj, doc)
            if "path-or-escaped-arg" in feats or len(snap) % 3 == 0:
                # other specs are parsed in between, a good dozen of them: well-formed conditions whose argument is a
                # LITERAL mapping that merely looks like a path spec (unknown suffix), and a malformed path spec
                ns_ = build.ns()
                for j in range(14):
                    for other in ({"value.equal_to": {"path.units": ["m", "s"]}}, {"value.in": [{"path.nope.first": ["a"]}, 1]}):
                        try:
                            with warnings.catch_warnings():
                                warnings.simplefilter("ignore")
                                ns_.c.ConditionLike.from_spec(copy.deepcopy(other))
                        except Exception:
                            pass
                    try:
                        ns_.d.DataPath.from_spec({"path.units": ["m"]})
                    except Exception:
                        pass
                out.label("other-specs-in-between")
        else:
            try:
                same = (obj == first) is True and (first == obj) is True
            except Exception as e:
                out.exc("equality", e)
                break
            if not same:
                out.add("reparse-equal", f"reparse-equal|{cls}", f"parse #{nparsed} gives {show(obj,250)}, first gave {show(first,250)}")
                break
            b = behaviour(cls, obj, doc)
            if b != first_beh:
                out.add("reparse-equal", f"reparse-behaviour|{cls}", f"parse #{nparsed} behaves {show(b,200)}, first {show(first_beh,200)}")
                break
    out.nontrivial = bool(feats) and nparsed >= 2
    return out


YAML_SENSITIVE = ["yes", "no", "on", "off", "y", "n", "010", "0o10", "1_000", "1e3", "12:30:00", "~", "null", "Null",
                  "2001-12-14", "0x1F", ".inf", "+1", "1.", "=", "<<"]


def gen_text(r):
    """A schema as TEXT (YAML or JSON): every parse of the same text creates fresh strings."""
    d = G.hostile_doc(r, 3)
    rules = []
    for _ in range(r.between(1, 3)):
        rl = G.rule_for(r, d, mode="typed", cast_p=40, cond_depth=1, max_len=3, with_doc=True, meaningful=True, jsonable=True)
        # labelled parts (labels are strings that each parse creates anew)
        parts = [p.replace(label=r.choice(["L", "lbl", "my label"])) if isinstance(p, Part) and r.coin(60) else p for p in rl.path.parts]
        if r.coin(50):
            parts.append(Part(r.choice(["map", "list", "mol"]), label=r.choice(["L", "lbl"])))
        rules.append(rl.replace(path=PathT(parts)))
    if r.coin(40):
        # scalars whose reading differs between YAML versions / resolvers (they must read the same way every time)
        vals = [r.choice(YAML_SENSITIVE) for _ in range(r.between(1, 4))]
        rules.append(RuleT(PathT([Prim(r.choice(["a", "b", 0]))]), Leaf("value", None, r.choice(["in_", "not_in"]), (), {"value": vals})))
    sp = SP.Spelling(r)
    sp.force_names = True
    spec = {"rules": [SP.rule_spec(rl, sp) for rl in rules]}
    # between the two parses, another text is parsed (a parse must not depend on what was parsed before it)
    between = r.choice([None, None, "%YAML 1.1\n---\n", "%YAML 1.2\n---\n", "other"])
    return spec, r.choice(["yaml", "yaml-file", "json"]), d, between


def body_text(case):
    import io, json, os, tempfile
    from ruamel.yaml import YAML

    spec, how, doc, between = case
    out = Outcome()
    ns = build.ns()
    out.nontrivial = any(isinstance(p, dict) and "label" in p for rl in spec["rules"] for p in rl["path"])
    out.label(f"text:{how}")
    try:
        if how == "json":
            text = json.dumps(spec["rules"])
            json.loads(text)
        else:
            buf = io.StringIO()
            YAML(typ="safe").dump(spec, buf)
            text = buf.getvalue()
            if exact(YAML(typ="safe").load(text)) != exact(spec):
                out.label("text-precheck-rejected")
                out.nontrivial = False
                return out
    except Exception:
        out.label("text-precheck-rejected")
        out.nontrivial = False
        return out
    if how != "json" and "'2001-12-14'" in text:
        # the planted date is written as a plain scalar: a YAML timestamp (both parses must read it alike)
        text = text.replace("'2001-12-14'", "2001-12-14")
        out.label("yaml-timestamp")
    out.sample = text[:400]

    td_holder = tempfile.TemporaryDirectory() if how == "yaml-file" else None
    if td_holder is not None:
        # ONE file, loaded twice (unchanged in between)
        fn = os.path.join(td_holder.name, "s.yaml")
        with open(fn, "w", encoding="utf-8") as fh:
            fh.write(text)

    def parse_once():
        with warnings.catch_warnings():
            warnings.simplefilter("ignore")
            if how == "json":
                return ns.s.Schema.from_json_like(json.loads(text))
            if how == "yaml":
                return ns.s.Schema.from_yaml(text)
            return ns.s.Schema.from_yaml_file(fn)

    try:
        a_live = parse_once()
        a = copy.deepcopy(a_live)
        # the caller goes on to use what it loaded: the first result receives another schema
        try:
            a_live.add_schema(ns.s.Schema.from_json_like([{"path": ["zz"], "condition": {"value.truthy": None}}]), ns.d.DataPath("grown"))
        except Exception:
            pass
    except Exception as e:
        out.exc("parse-text", e)
        if td_holder is not None:
            td_holder.cleanup()
        return out
    # in between, the other loaders are used on other texts as well (a schema file with extra top-level keys next to
    # `rules`, a plain one): what a loader does to one text has no bearing on how the next text is read
    if how != "json":
        try:
            with warnings.catch_warnings():
                warnings.simplefilter("ignore")
                with tempfile.TemporaryDirectory() as td2:
                    f2 = os.path.join(td2, "other.yaml")
                    with open(f2, "w", encoding="utf-8") as fh:
                        fh.write("default_part_type: list_value\nversion: 1\ndefaults: {type: list_value}\nrules:\n- path: [a, {value.truthy: null}]\n  condition: {value.equal_to: 2001-12-14}\n")
                    try:
                        ns.s.Schema.from_yaml_file(f2)
                    except Exception:
                        pass
                try:
                    ns.s.Schema.from_yaml("strict: true\ndefault_part_type: map_value\nrules: []\n")
                except Exception:
                    pass
        except Exception:
            pass
    if between is not None:
        out.label(f"between:{between.split(chr(10))[0]}")
        try:
            with warnings.catch_warnings():
                warnings.simplefilter("ignore")
                if between == "other":
                    ns.s.Schema.from_yaml("rules:\n- path: [yes, 010]\n  condition: {value.in: [on, 1_0, 0o7]}\n")
                else:
                    yt = text if how != "json" else "rules: []\n"
                    ns.s.Schema.from_yaml(between + yt)
        except Exception:
            out.label("between-parse-refused")
    try:
        b = parse_once()
    except Exception as e:
        out.exc("parse-text", e)
        return out
    finally:
        if td_holder is not None:
            td_holder.cleanup()
    try:
        same = (a == b) is True and (b == a) is True
    except Exception as e:
        out.exc("equality", e)
        return out
    if not same:
        out.add("reparse-equal", f"reparse-equal|text|{how}", f"two parses of the same {how} text give unequal schemas: {show(a.rules,250)} / {show(b.rules,250)}")
        return out
    if behaviour("schema", a, doc) != behaviour("schema", b, doc):
        out.add("reparse-equal", f"reparse-behaviour|text|{how}", "two parses of the same text behave differently")
    return out


# ------------------------------------------------------------------ the first parses of a fresh process
FRESH_SCRIPT = r"""
import sys, json, os, tempfile, warnings
warnings.simplefilter("ignore")
src, text, order = sys.argv[1], sys.argv[2], sys.argv[3]
sys.path.insert(0, src)
import valida
from valida.schema import Schema
assert os.path.abspath(valida.__file__).startswith(os.path.abspath(src) + os.sep), valida.__file__
td = tempfile.mkdtemp()
fn = os.path.join(td, "s.yaml")
open(fn, "w", encoding="utf-8").write(text)
other = os.path.join(td, "o.yaml")
open(other, "w", encoding="utf-8").write("rules:\n- path: [a]\n  condition: {value.equal_to: 2001-12-14}\n")
def load(how, which=None):
    if how == "t":
        return Schema.from_yaml(text)
    if how == "f":
        return Schema.from_yaml_file(fn)
    if how == "o":
        return Schema.from_yaml_file(other)
    if how == "p":
        return Schema.from_yaml("rules:\n- path: [yes, 010]\n  condition: {value.in: [on, 2001-12-14, 1_0]}\n")
res = [load(h) for h in order]
main = [r for r, h in zip(res, order) if h in "tf"]
ok = all((a == main[0]) is True and (main[0] == a) is True for a in main[1:])
print(json.dumps({"ok": ok, "reprs": [repr(m.rules)[:300] for m in main]}))
"""


def gen_fresh(r):
    spec, _, d, _ = gen_text(r)
    # (always with scalars whose reading depends on the resolver: a timestamp, a YAML 1.1 boolean, an octal look-alike)
    spec["rules"].append({"path": ["when"], "condition": {"value.in": ["2001-12-14", r.choice(YAML_SENSITIVE), r.choice(YAML_SENSITIVE)]}})
    # the order of the first loads of the process: t = the text, f = the same text from a file, o / p = other texts
    order = r.choice(["tot", "tft", "tpt", "ftf", "tof", "fpt", "otft"])
    return spec, order


def body_fresh(case):
    """The same sequence in a FRESH interpreter: what the very first load of a process does (registering something with
    the YAML library, filling a module-level table) must not change how the next text is read."""
    import io, subprocess, sys
    from ruamel.yaml import YAML

    spec, order = case
    out = Outcome()
    out.nontrivial = True
    out.label(f"fresh-process:{order}")
    try:
        buf = io.StringIO()
        YAML(typ="safe").dump(spec, buf)
        text = buf.getvalue().replace("'2001-12-14'", "2001-12-14")
    except Exception:
        out.nontrivial = False
        return out
    out.sample = f"order {order}: {text[:300]}"
    src = build.ns().valida.__file__.rsplit("/valida/", 1)[0]
    try:
        pr = subprocess.run([sys.executable, "-c", FRESH_SCRIPT, src, text, order], capture_output=True, text=True, timeout=120,
                            env={**__import__("os").environ, "PYTHONHASHSEED": "0"})
    except subprocess.TimeoutExpired:
        out.label("fresh-process-timeout")
        out.nontrivial = False
        return out
    if pr.returncode != 0:
        # (the text may be refused - then it is refused every time; anything else shows in stderr)
        out.label("fresh-process-raised")
        out.nontrivial = False
        return out
    try:
        res = json.loads(pr.stdout.strip().splitlines()[-1])
    except Exception:
        out.label("fresh-process-unreadable")
        out.nontrivial = False
        return out
    if not res["ok"]:
        out.add("reparse-equal", f"reparse-equal|fresh-process|{order}", f"loads of the same text in a fresh process (order {order}) differ: {res['reprs']}"[:700])
    return out


def tests(tier):
    return [
        TestSpec("fresh-process", gen_fresh, body_fresh, {"quick": 12, "thorough": 600}, tape=2048),
        TestSpec("reparse", gen_case, body, {"quick": 3000, "thorough": 250000}, tape=2048, fuzz={"thorough": 40000}),
        TestSpec("reparse-text", gen_text, body_text, {"quick": 400, "thorough": 30000}, tape=2048),
    ]
