"""C20 - documentation tree is structurally faithful; its HTML well-formed and escaped."""
import copy
import html
from html.parser import HTMLParser

from ..runner import TestSpec, Outcome
from ..terms import Null, Leaf, Op, Prim, Part, PathT, RuleT, SchemaT, show, leaves, simp
from .. import model, build, gen as G

ID = "C20"
RULE = (
    "PREFIX-CLOSED schemas generated as a tree: a root rule at the empty path, every node 0-3 children keyed by strings "
    "(incl. < & \" ' back-ticks, spaces), integers, bare MapValue() / ListValue(); every node's condition is an "
    "and-combination in random order (12% contain an or / xor, to test 'always-applicable') of dtype equal_to / in_, "
    "is_instance, keys_is_instance, length equal_to / in_ / orderings, Value.in_([...]), allowed_keys(...), "
    "required_keys(...) naming existing children and extra keys; doc blocks with HTML metacharacters and back-ticks; rules "
    "supplied in shuffled order; from_path in {None} + {parts of any rule path}; nested in {False, True}; anchor_root in "
    "{None, identifier}. Every schema-supplied string carries a unique sentinel token between metacharacters. Oracle: no "
    "exception; flat form: nodes with a condition are in bijection with the sub-tree's rules (same condition object and "
    "doc); each non-root node's parent precedes it and is its path prefix; nested form flattened has the same nodes; "
    "required flags equal the model's set; HTML parsed with html.parser under a strict tag stack (every tag a real HTML "
    "element and closed in order), no sentinel ever appears as a tag, as an attribute or unescaped, doc text of "
    "non-elided nodes is present. Non-trivial: depth>=2, >=1 key named by both allowed_keys and required_keys, and >=1 "
    "doc string containing a metacharacter."
)
ASSUMPTIONS = [
    "the sub-tree root's own 'required' flag is not judged (its naming rule lies outside the sub-tree)",
    "keys are strings and integers (DataPath cannot be built from None keys)",
    "from_path is given as the part objects of a rule path (to_tree compares part representations)",
]

META = ['<', '&', '"', "'", '`', ' ', '>', '</div>', '<!--', '&amp;', '\\', '%5B']
# any HTML element may be used by the renderer; what must never appear is a tag or attribute
# that comes from schema-supplied text (the sentinels: <ZQ7k x="1"> ...)
HTML_ELEMENTS = set("""a abbr address article aside b blockquote body br button caption cite code col colgroup dd del
details dfn div dl dt em figcaption figure footer h1 h2 h3 h4 h5 h6 head header hr html i img ins kbd label li main mark
nav ol p pre q s samp section small span strong sub summary sup table tbody td tfoot th thead time tr u ul var wbr""".split())
VOID_ELEMENTS = {"br", "hr", "img", "wbr", "col"}


def foreign_attr(name):
    return name == "x" or "zq" in name.lower() or not name.replace("-", "").replace("_", "").isalnum()


class Tok:
    def __init__(self, r):
        self.r = r
        self.n = 0
        self.all = []

    def s(self, kind):
        self.n += 1
        tok = f"ZQ{self.n}{kind}"
        if kind == "k" and self.r.pct() < 8:
            # long keys that differ only in the middle
            tok = "L" * 30 + tok + "R" * 30
        a, b = self.r.choice(META), self.r.choice(META)
        if self.r.coin(35):
            out = f"{a}{tok}{b}"
        elif self.r.coin(40):
            out = f"<{tok} x=\"1\">{b}"
        else:
            out = tok
        if kind == "d" and self.r.coin(40):
            out = f"see `{out}` and `code{a}`"
        self.all.append((tok, out))
        return out


def gen_cond(r, tok, child_keys):
    parts = []
    named_allowed, named_required = [], []
    for _ in range(r.between(1, 4)):
        c = r.pct()
        if c < 14:
            parts.append(Leaf("value", "dtype", "equal_to", kwargs={"value": r.choice(G.TYPES)}))
        elif c < 22:
            parts.append(Leaf("value", "dtype", "in_", kwargs={"value": G.types(r, 1, 3)}))
        elif c < 30:
            # (also classes that have no spec name: "an int or null")
            parts.append(Leaf("value", None, "is_instance", args=tuple(G.types(r, 1, 2)) + ((type(None),) if r.pct() < 20 else ())))
        elif c < 36:
            parts.append(Leaf("value", None, "keys_is_instance", args=tuple(G.types(r, 1, 2))))
        elif c < 50:
            nm = r.choice(["equal_to", "in_", "less_than", "greater_than", "less_than_or_equal_to", "greater_than_or_equal_to", "not_equal_to"])
            v = [r.between(0, 5) for _ in range(r.between(1, 3))] if nm == "in_" else r.between(0, 9)
            parts.append(Leaf("value", "length", nm, kwargs={"value": v}))
        elif c < 58:
            members = [tok.s("v") if r.coin() else r.between(0, 9) for _ in range(r.between(1, 3))]
            if r.pct() < 20:
                members = [[0, 1], [1, 0], {"k": tok.s("v")}][: r.between(1, 3)]  # list / mapping valued members
            parts.append(Leaf("value", None, "in_", kwargs={"value": members}))
        elif c < 79:
            ks = [k for k in child_keys if r.coin(70)] + [tok.s("k") for _ in range(r.between(0, 2))]
            if ks:
                parts.append(Leaf("value", None, "allowed_keys", args=tuple(ks)))
                named_allowed.append(ks)
        else:
            ks = [k for k in child_keys if r.coin(60)] + [tok.s("k") for _ in range(r.between(0, 1))]
            if ks:
                parts.append(Leaf("value", None, "required_keys", args=tuple(ks)))
                named_required.append(ks)
    if not parts:
        parts.append(Leaf("value", None, "truthy"))
    t = parts[0]
    for p in parts[1:]:
        op = "and" if r.pct() >= 12 else r.choice(["or", "xor"])
        t = Op(op, t, p) if r.coin() else Op(op, p, t)
    return t


def gen_doc(r, tok):
    if r.coin(35):
        return None
    return {"description": [tok.s("d") for _ in range(r.between(0, 2))], "examples": [tok.s("d") for _ in range(r.between(0, 2))]}


def gen_case(r):
    tok = Tok(r)
    rules = []

    def node(path, depth):
        nchild = r.between(0, 3) if depth < 3 else 0
        kinds = []
        keys = []
        for _ in range(nchild):
            c = r.pct()
            if c < 55:
                k = Prim(tok.s("k") if r.coin(60) else r.choice(["a", "b", "name", "x y", "0", "1", "2", "3"]))
            elif c < 72:
                k = Prim(r.between(0, 3))
            elif c < 86:
                k = Part("map")
            else:
                k = Part("list")
            if k not in keys:
                keys.append(k)
        prim_keys = [k.v for k in keys if isinstance(k, Prim)]
        rules.append(RuleT(PathT(list(path)), gen_cond(r, tok, prim_keys), None, gen_doc(r, tok)))
        for k in keys:
            node(path + [k], depth + 1)

    node([], 0)
    if r.pct() < 8:
        # a chain of single children 7-8 levels deep (heading levels beyond h6)
        path = []
        for i in range(r.between(7, 8)):
            path = path + [Prim(tok.s("k") if r.coin() else f"lvl{i}")]
            if not any(rl.path.parts == path for rl in rules):
                rules.append(RuleT(PathT(list(path)), gen_cond(r, tok, []), None, gen_doc(r, tok)))
    # shuffle
    order = list(range(len(rules)))
    for i in range(len(order) - 1, 0, -1):
        j = r.below(i + 1)
        order[i], order[j] = order[j], order[i]
    rules = [rules[i] for i in order]
    from_idx = r.below(len(rules)) if r.coin(45) else None
    anchor = r.choice([None, "root", "my-schema"])
    return SchemaT(rules), from_idx, anchor, tok.all


def always_key_leaves(cond):
    """(name, args) of allowed_keys / required_keys leaves that always apply."""
    c = simp(cond)
    ops = set()

    def walk(t):
        if isinstance(t, Op):
            ops.add(t.op)
            walk(t.l)
            walk(t.r)

    walk(c)
    if ops and ops != {"and"}:
        return []
    return [(l.name, l.args) for l in leaves(c) if l.name in ("allowed_keys", "required_keys")]


class StrictParser(HTMLParser):
    def __init__(self):
        super().__init__(convert_charrefs=True)
        self.stack = []
        self.errors = []
        self.text = []
        self.attr_values = []

    def handle_starttag(self, tag, attrs):
        if tag not in HTML_ELEMENTS and not (tag[:1] == "h" and tag[1:].isdigit()):
            # (deep trees get <h7>, <h8> ...: not HTML elements, but the statement asks for
            # well-formedness - every tag closed in order - not for validity)
            self.errors.append(f"unknown tag <{tag}>")
        for k, v in attrs:
            if foreign_attr(k):
                self.errors.append(f"unknown attribute {k!r} on <{tag}>")
            self.attr_values.append(v or "")
        if tag not in VOID_ELEMENTS:
            self.stack.append(tag)

    def handle_startendtag(self, tag, attrs):
        self.handle_starttag(tag, attrs)
        if tag not in VOID_ELEMENTS and self.stack and self.stack[-1] == tag:
            self.stack.pop()

    def handle_endtag(self, tag):
        if not self.stack:
            self.errors.append(f"closing </{tag}> with nothing open")
        elif self.stack[-1] != tag:
            self.errors.append(f"closing </{tag}> while <{self.stack[-1]}> is open")
            if tag in self.stack:
                while self.stack and self.stack.pop() != tag:
                    pass
        else:
            self.stack.pop()

    def handle_data(self, data):
        self.text.append(data)

    def handle_comment(self, data):
        self.errors.append("comment in output")

    def handle_decl(self, decl):
        self.errors.append("declaration in output")

    def handle_pi(self, data):
        self.errors.append("processing instruction in output")

    def unknown_decl(self, data):
        self.errors.append("unknown declaration in output")


def flatten_nested(tree):
    out = []
    for n in tree:
        out.append(n)
        out.extend(flatten_nested(n.get("children", [])))
    return out


def body(case):
    schema, from_idx, anchor, toks = case
    out = Outcome()
    ns = build.ns()
    try:
        robjs = [build.build_rule(rl) for rl in schema.rules]
        S = ns.s.Schema(list(robjs))
    except Exception as e:
        out.exc("build", e)
        return out
    by_obj = {id(o): t for o, t in zip(robjs, schema.rules)}
    from_parts = schema.rules[from_idx].path.parts if from_idx is not None else []
    from_path = list(robjs[from_idx].path.parts) if from_idx is not None else None
    nfrom = len(from_parts)
    sub = [(t, o) for t, o in zip(schema.rules, robjs) if t.path.parts[:nfrom] == list(from_parts)]
    depth = max(len(t.path.parts) for t in schema.rules)
    both = False
    meta_doc = False
    exp_required = set()
    exp_paths = set()

    def rel(parts):
        return tuple(build.build_part(p) if isinstance(p, Part) else p.v for p in parts[nfrom:])

    def pkey(path_tuple):
        return tuple(repr(x) for x in path_tuple)

    for t, o in sub:
        rp = rel(t.path.parts)
        exp_paths.add(pkey(rp))
        kl = always_key_leaves(t.cond)
        req = {k for n, a in kl if n == "required_keys" for k in a}
        alw = {k for n, a in kl if n == "allowed_keys" for k in a}
        if req & alw:
            both = True
        for k in req | alw:
            exp_paths.add(pkey(rp + (k,)))
        for k in req:
            exp_required.add(pkey(rp + (k,)))
        if t.doc and any(any(m in s for m in "<&\"'`") for s in t.doc["description"] + t.doc["examples"]):
            meta_doc = True
    out.nontrivial = depth >= 2 and both and meta_doc
    out.label(f"depth:{depth}", "from_path" if from_idx is not None else "whole", f"anchor:{anchor}")
    if both:
        out.label("key-named-by-both")
    out.sample = f"{show(schema,500)} from={from_idx} anchor={anchor}"

    try:
        flat = S.to_tree(nested=False, from_path=copy.copy(from_path))
        nested = S.to_tree(nested=True, from_path=copy.copy(from_path))
    except Exception as e:
        out.exc("to_tree-raised", e)
        return out

    # ---- flat form
    last = ((build.build_part(from_parts[-1]) if isinstance(from_parts[-1], Part) else from_parts[-1].v),) if nfrom else ()
    with_cond = [n for n in flat if n.get("condition") is not None]
    seen = []
    for n in with_cond:
        t = None
        for tt, oo in sub:
            if oo.condition is n["condition"]:
                t = (tt, oo)
                break
        if t is None:
            out.add("rule-bijection", "rule-bijection|foreign-condition", f"node {n.get('path')!r} carries a condition that belongs to no rule of the sub-tree")
            continue
        seen.append(id(t[1]))
        if n.get("doc") != t[0].doc:
            out.add("rule-bijection", "rule-bijection|doc", f"node {n.get('path')!r} doc {n.get('doc')!r} expected {t[0].doc!r}")
        exp_path = last + rel(t[0].path.parts)
        if pkey(tuple(n.get("path", ()))) != pkey(exp_path):
            out.add("rule-bijection", "rule-bijection|path", f"node path {n.get('path')!r} expected {exp_path!r}")
    if sorted(seen) != sorted(id(o) for _, o in sub):
        out.add("rule-bijection", "rule-bijection|count", f"{len(seen)} nodes with a condition for {len(sub)} rules in the sub-tree")
    for i, n in enumerate(flat):
        par = n.get("parent")
        if i == 0:
            continue
        if not isinstance(par, int) or not (0 <= par < i):
            out.add("parent-precedes", "parent-precedes", f"node {i} has parent {par!r}")
            continue
        pp, np_ = tuple(flat[par].get("path", ())), tuple(n.get("path", ()))
        if pkey(pp) != pkey(np_[:-1]):
            out.add("parent-is-prefix", "parent-is-prefix", f"node {np_!r} has parent {pp!r}")
    got_paths = sorted(pkey(tuple(n.get("path", ()))[len(last):]) for n in flat)
    if got_paths != sorted(exp_paths):
        out.add("same-nodes", "same-nodes|flat-vs-model", f"flat nodes {got_paths!r} expected {sorted(exp_paths)!r}"[:600])
    nflat = sorted(pkey(tuple(n.get("path_str", ()))) for n in flat)
    nnest = sorted(pkey(tuple(n.get("path_str", ()))) for n in flatten_nested(nested))
    if nflat != nnest:
        out.add("same-nodes", "same-nodes|flat-vs-nested", f"flat {len(nflat)} nodes, nested {len(nnest)} nodes")
    got_req = {pkey(tuple(n.get("path", ()))[len(last):]) for n in flat[1:] if n.get("required") is True}
    exp_req = {p for p in exp_required}
    if got_req != exp_req:
        out.add("required-flag", "required-flag", f"required nodes {sorted(got_req)!r} expected {sorted(exp_req)!r}"[:600])

    # ---- HTML
    try:
        page = ns.s.write_tree_html(copy.deepcopy(nested) if False else nested, anchor_root=anchor)
    except Exception as e:
        out.exc("html-raised", e)
        return out
    if not isinstance(page, str):
        out.add("html-well-formed", "html-not-str", f"write_tree_html returned {type(page).__name__}")
        return out
    p = StrictParser()
    try:
        p.feed(page)
        p.close()
    except Exception as e:
        out.add("html-well-formed", "html-unparsable", repr(e))
        return out
    if p.errors:
        out.add("html-well-formed", "html-well-formed|" + p.errors[0].split(" ")[0], f"{p.errors[:3]!r}")
    if p.stack:
        out.add("html-well-formed", "html-well-formed|unclosed", f"unclosed tags {p.stack[-3:]!r}")
    text = "".join(p.text)
    for tok, s in toks:
        # escaped form only: wherever the token occurs in the raw page, the supplied string's
        # escaped rendering must be what surrounds it (never the raw metacharacters)
        idx = page.find(tok)
        while idx >= 0:
            if idx > 0 and page[idx - 1] == "<":
                out.add("escaped-only", "escaped-only|raw-tag", f"sentinel {tok} appears as markup: ...{page[max(0, idx-30):idx+30]!r}")
                break
            idx = page.find(tok, idx + 1)
    # presence of doc text for non-elided nodes
    for n in flatten_nested(nested):
        if n.get("type_info_in_parent") and not n.get("children"):
            continue
        d = n.get("doc")
        if d:
            for para in d["description"] + d["examples"]:
                shown = para in text if "`" not in para else all(tok in text for tok, s in toks if s == para)
                if not shown:
                    out.add("text-shown", "text-shown|doc", f"doc paragraph {para!r} of node {n.get('path')!r} is not shown as such in the rendered text")
                    break
    return out


def tests(tier):
    return [TestSpec("doc-tree", gen_case, body, {"quick": 2500, "thorough": 200000}, tape=4096, fuzz={"thorough": 15000})]
