"""C03 - path resolution selects exactly the nodes a part-by-part walk reaches."""
from ..runner import TestSpec, Outcome
from ..terms import Prim, Part, PathT, show
from .. import model, build, gen as G
from ..snapshot import exact
from . import edits

ID = "C03"
RULE = (
    "documents (non-empty list/mapping, depth<=3, heterogeneous keys) x document-guided paths of length 0-5 "
    "mixing primitive, map, list and map-or-list parts with key/index/value condition trees (18% blind parts "
    "inject misses). Oracle: reference frontier walk; all five entry points compared. Non-trivial: the path "
    "selects >=2 nodes, or >=1 node while a frontier node was skipped mid-walk (wrong kind/scalar/empty), or "
    "fan-out at >=2 levels; distinct by hash of (document, path) term."
)
ASSUMPTIONS = [
    "primitive parts are str/int/float/bool (None is rejected by the DataPath constructor by design)",
    "part conditions are well-kinded (key-like on map parts, index-like on list parts)",
]


def gen_case(r):
    d = G.doc(r, 4 if r.coin(60) else 3)
    p = G.guided_path(r, d, max_len=5, mode="typed" if r.coin(70) else "any")
    # a second document resolved afterwards with the SAME path object (a perturbed copy of
    # the first, or an independent one)
    d2 = G.twinned(r, d, 30) if r.coin(40) else G.doc(r, 3)
    if r.pct() < 3:
        # a part selecting the children that hold given items, one of them expected to be None: a child WITHOUT that
        # key does not hold it
        from ..terms import Leaf
        k_ = r.choice(["after", "a", "k"])
        kids = [r.choice([{k_: None}, {k_: None, "b": 1}, {"b": 1}, {}, {k_: 0}, 5, None, {k_: False}]) for _ in range(r.between(2, 5))]
        kw = {k_: None}
        if r.coin(30):
            kw["b"] = 1
        d = {"kids": kids} if r.coin() else kids
        pre = [Prim("kids")] if isinstance(d, dict) else []
        p = PathT(pre + [Part(r.choice(["list", "mol"]), value=Leaf("value", None, "items_contain", kwargs=kw))] + ([Prim("b")] if r.coin(30) else []))
        return d, p, d2
    if r.pct() < 4:
        # a part condition whose comparison is the `%` operator met with printf-style strings and mappings: for a child
        # it is not defined for (a missing name, a non-mapping) the child is simply not selected
        from ..terms import Leaf
        fmt = r.choice(["%(name)d", "%(a)s", "%(k)d and %(l)s", "%d", "50%"])
        children = [{"name": 1}, {"a": "x"}, {}, "%(who)s", 7, "%(name)d", {"k": 2}, [1], None]
        kids = [r.choice(children) for _ in range(r.between(2, 4))]
        if r.coin():
            cond = Leaf("value", None, "factor_of", kwargs={"value": fmt})       # fmt % child
        else:
            cond = Leaf("value", None, "has_factor", kwargs={"value": r.choice([{"name": 1}, {"who": "w"}, {}, 3])})  # child % mapping
        d = {"kids": kids, "other": 1} if r.coin() else kids
        pre = [Prim("kids")] if isinstance(d, dict) else []
        p = PathT(pre + [Part(r.choice(["list", "mol"]), value=cond)])
        return d, p, d2
    return d, p, d2


def norm_sel(x):
    return [(exact(v), tuple(exact(k) for k in p)) for v, p in x]


def body(case):
    doc, path, doc2 = case
    out = Outcome()
    ns = build.ns()
    parts = path.parts
    sel = model.ref_select(parts, doc) if parts else [(doc, ())]
    conc = model.is_concrete(parts)
    stats = model.select_stats(parts, doc)
    out.label(f"selects:{min(stats['n'], 2)}{'+' if stats['n'] >= 2 else ''}", f"len:{len(parts)}")
    if stats["skipped"]:
        out.label("skipped-mid-walk")
    if stats["fan_levels"] >= 2:
        out.label("fanout>=2-levels")
    for p in parts:
        out.label("part:" + ("prim" if isinstance(p, Prim) else p.ctype))
    out.nontrivial = stats["n"] >= 2 or (stats["n"] >= 1 and stats["skipped"]) or stats["fan_levels"] >= 2
    out.sample = f"{show(path, 300)} on {show(doc, 250)} -> {len(sel)} node(s)"

    if not parts:
        exp_vals, exp_pairs = doc, (doc, ())
    elif conc:
        exp_vals = sel[0][0] if sel else None
        exp_pairs = sel[0] if sel else None
    else:
        exp_vals = [v for v, _ in sel]
        exp_pairs = list(sel)

    def same_vals(got):
        if not parts or conc:
            return exact(got) == exact(exp_vals)
        return isinstance(got, list) and [exact(x) for x in got] == [exact(x) for x in exp_vals]

    def same_pairs(got):
        if not parts or conc:
            if exp_pairs is None:
                return got is None
            return (
                isinstance(got, tuple) and len(got) == 2 and exact(got[0]) == exact(exp_pairs[0])
                and tuple(exact(k) for k in got[1]) == tuple(exact(k) for k in exp_pairs[1])
            )
        return isinstance(got, list) and norm_sel(got) == norm_sel(exp_pairs)

    try:
        p_obj = build.build_path(path)
    except Exception as e:
        out.exc("build-path", e)
        return out
    D = ns.da.Data
    bare = [build.build_part(p) for p in parts]
    entries = [
        ("get_data(raw)", lambda: p_obj.get_data(doc)),
        ("get_data(Data)", lambda: p_obj.get_data(D(doc))),
        ("Data.get(path)", lambda: D(doc).get(p_obj)),
        ("Data.get(*parts)", lambda: D(doc).get(*bare)),
        ("bound-source_data", lambda: build.build_path(path, source_data=doc).get_data()),
    ]
    for name, fn in entries:
        try:
            got = fn()
        except Exception as e:
            out.exc(f"no-raise|{name}", e)
            continue
        if not same_vals(got):
            out.add("selection", f"selection|{name}|{'concrete' if conc else 'non-concrete'}",
                    f"{name}: {show(path,250)} on {show(doc,200)}: got {show(got,200)} expected {show(exp_vals,200)}")
    # with paths (also anchors C04's truthfulness)
    try:
        gp = p_obj.get_data(doc, return_paths=True)
        if not same_pairs(gp):
            out.add("selection", f"selection|return_paths|{'concrete' if conc else 'non-concrete'}",
                    f"{show(path,250)} on {show(doc,200)}: got {show(gp,250)} expected {show(exp_pairs,250)}")
    except Exception as e:
        out.exc("no-raise|return_paths", e)
    # the same path object on a second document: nothing of the first resolution may linger
    sel2 = model.ref_select(parts, doc2) if parts else [(doc2, ())]
    try:
        g2 = p_obj.get_data(doc2, return_paths=True)
        g2v = D(doc2).get(p_obj)
    except Exception as e:
        out.exc("no-raise|second-document", e)
        return out
    try:
        if not parts:
            ok2 = norm_sel([g2]) == norm_sel(sel2) and exact(g2v) == exact(doc2)
        elif conc:
            # (a concrete path that selects a None node and an absent one both give None without paths)
            ok2 = norm_sel([] if g2 is None else [g2]) == norm_sel(sel2) and exact(g2v) == exact(sel2[0][0] if sel2 else None)
        else:
            ok2 = norm_sel(g2) == norm_sel(sel2) and [exact(x) for x in g2v] == [exact(v) for v, _ in sel2]
    except Exception:
        ok2 = False
    if not ok2:
        out.add("selection", "selection|second-document", f"{show(path,250)} after resolving {show(doc,120)}, on {show(doc2,150)}: got {show(g2,200)} expected {show(sel2,200)}")
    # the same path put together with the `/` operator (path / path, path / part, key / path): it walks the same
    # parts, so it reaches the same nodes; a path holding a list / map part answers with the list of ALL matches
    # (whether a joined all-primitive path counts as concrete is not stated: either shape is accepted there)
    if len(parts) >= 2 and not out.violations:
        k = 1 + len(repr(parts)) % (len(parts) - 1)
        Lp, Rp = parts[:k], parts[k:]
        forms = [("path/path", lambda: ns.d.DataPath(*[build.build_part(x) for x in Lp]) / ns.d.DataPath(*[build.build_part(x) for x in Rp]))]
        if len(Rp) == 1 and isinstance(Rp[0], Part):
            forms.append(("path/part", lambda: ns.d.DataPath(*[build.build_part(x) for x in Lp]) / build.build_part(Rp[0])))
        if len(Lp) == 1 and isinstance(Lp[0], Prim) and isinstance(Lp[0].v, str):
            forms.append(("key/path", lambda: Lp[0].v / ns.d.DataPath(*[build.build_part(x) for x in Rp])))
        for name, mk in forms:
            try:
                joined = mk()
                gj = joined.get_data(doc, return_paths=True)
            except Exception as e:
                out.exc(f"no-raise|{name}", e)
                continue
            if isinstance(gj, list):
                okj = norm_sel(gj) == norm_sel(sel)
            else:
                okj = conc and norm_sel([] if gj is None else [gj]) == norm_sel(sel)
            if not okj:
                out.add("selection", f"selection|{name}", f"{name}: {show(path,250)} on {show(doc,200)}: got {show(gj,200)} expected {show(sel,200)}")
        out.label("joined-with-slash")
    return out


def tests(tier):
    return [TestSpec("select", gen_case, body, {"quick": 6000, "thorough": 600000}, tape=1024, fuzz={"thorough": 40000}),
            edits.spec("select", 1500, 120000)]
