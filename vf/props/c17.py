"""C17 - a data-path argument means the value at that path in the validated document."""
import copy
import warnings

from ..runner import TestSpec, Outcome
from ..terms import Null, Leaf, Op, Prim, Part, PathT, RuleT, SchemaT, show, leaves
from .. import model, build, gen as G, spec as SP
from ..snapshot import exact
from .c05 import check_rule_test
from . import c11

ID = "C17"
RULE = (
    "rules whose value-kind condition (single leaf or and/or/xor tree) has 1-3 arguments that ARE data paths: the sole "
    "argument, a keyword argument of a multi-argument callable, an element of a variable-positional argument list, a "
    "value of a variable-keyword mapping; paths are document-guided (concrete and non-concrete, 20% absent), with datum "
    "/ multiplicity modifiers drawn from those defined on the document; given as DataPath objects and as '{path...: parts}' "
    "specs through Rule.from_spec (any spelling). Oracle (metamorphic + reference): R.test(doc) has the same verdict and "
    "failure list as R' where every path argument is replaced by the literal the reference resolves it to (None if a "
    "concrete path is absent, [] if a non-concrete one selects nothing), and both equal the reference rule test. Escaped "
    "literals: the rule parsed from a spec with '\\\\path' keys equals, and behaves as, the rule with the literal mapping. "
    "Non-trivial: a referenced node exists and the verdict with the resolved value differs from the verdict with None."
)
ASSUMPTIONS = [
    "a path object nested inside a list that is itself the single argument (Value.in_([DataPath('y'), 3])) is outside the statement and not generated",
    "multiplicity modifiers first/last/single are attached only when the referenced selection is non-empty, datum modifiers only where defined (as C04)",
    "rules carry no casts here (C15 covers judging on the cast copy)",
]

SINGLE = ["equal_to", "not_equal_to", "less_than", "greater_than", "less_than_or_equal_to",
          "greater_than_or_equal_to", "in_", "not_in", "has_factor", "factor_of", "keys_contain"]
MULTI = ["equal_to_approx", "keys_contain_N_of", "keys_contain_at_least_N_of", "keys_contain_at_most_N_of"]
# (in_range / not_in_range take no path-valued bounds here: the library evaluates `x in range(lo, hi)`, which
#  does not terminate in practical time for a float item and 64-bit bounds taken from the document)
VARPOS = ["required_keys", "allowed_keys", "forbidden_keys", "keys_contain_any_of", "keys_equal_to", "keys_contain_all_of"]
VARKW = ["items_contain"]


def ref_path(r, doc, jsonable=False):
    """A document-guided reference path with modifiers that are defined on the document."""
    p = G.guided_path(r, doc, max_len=3, min_len=1, miss=20, mode="typed", prim_only=r.coin(60), meaningful=True, jsonable=jsonable)
    sel = model.ref_select(p.parts, doc)
    conc = model.is_concrete(p.parts)
    if sel and r.coin(40):
        cands = [x for x in ("dtype", "length", "map_keys", "map_values") if all(model.datum_defined(x, n) for n, _ in sel)]
        p.datum = r.choice(cands)
    if not conc and r.coin(40):
        if sel:
            p.multi = r.choice(["first", "last", "all"] + (["single"] if len(sel) == 1 else []))
        else:
            p.multi = "all"
    p.order = r.choice(["dm", "md"])
    return p


def same_base_leaves(r, doc):
    """Two or three path arguments derived from the SAME base path with different modifiers."""
    base = ref_path(r, doc)
    sel = model.ref_select(base.parts, doc)
    conc = model.is_concrete(base.parts)
    datums = [None] + [x for x in ("length", "dtype", "map_keys", "map_values") if sel and all(model.datum_defined(x, n) for n, _ in sel)]
    multis = [None] if conc or not sel else [None, "first", "last", "all"]

    def variant():
        return PathT(list(base.parts), r.choice(datums), r.choice(multis), r.choice(["dm", "md"]))

    c = r.pct()
    if c < 40:
        return Op(r.choice(["and", "or", "xor"]),
                  Leaf("value", r.choice([None, "length"]), r.choice(["equal_to", "less_than_or_equal_to", "not_equal_to"]), kwargs={"value": variant()}),
                  Leaf("value", None, r.choice(["equal_to", "in_", "not_equal_to"]), kwargs={"value": variant()}))
    if c < 70:
        return Leaf("value", None, r.choice(["keys_contain_N_of", "keys_contain_at_least_N_of"]), kwargs={"N": variant(), "keys": variant()})
    if c < 85:
        return Leaf("value", None, "equal_to_approx", kwargs={"value": variant(), "tolerance": variant()})
    return Leaf("value", None, r.choice(["required_keys", "keys_contain_any_of"]), args=(variant(), variant()))


def gen_leaf_with_paths(r, doc, jsonable=False, allow_range=False):
    _rp = ref_path
    def ref_path_(r_, d_):
        return _rp(r_, d_, jsonable)
    if allow_range and r.pct() < 8:
        # in_range / not_in_range with a bound looked up in the document - only a bound that the reference resolves, in
        # THIS document, to a small integer (the library walks range(lo, hi) for a non-integer item); the callable is
        # type-sensitive: an equal-valued float bound makes the comparison undefined
        small = [(v, pth) for v, pth in all_nodes(doc) if isinstance(v, int) and not isinstance(v, bool) and abs(v) <= 40
                 and all(isinstance(k, (str, int)) and not isinstance(k, bool) for k in pth)]
        if small:
            v, pth = r.choice(small)
            bound = PathT([Prim(k) for k in pth])
            other = v + r.between(1, 6)
            kw = {"lower": bound, "upper": other} if r.coin() else {"lower": v - r.between(1, 6), "upper": bound}
            return Leaf("value", None, r.choice(["in_range", "not_in_range"]), kwargs=kw)
    c = r.pct()
    if c < 50:
        name = r.choice(SINGLE)
        return Leaf("value", None, name, kwargs={("key" if name == "keys_contain" else "value"): ref_path_(r, doc)})
    if c < 70:
        name = r.choice(MULTI)
        leaf = G.leaf_of_shape(r, ("value", None, name), "typed")
        kw = dict(leaf.kwargs)
        for k in r.subset(list(kw), 1, 2):
            kw[k] = ref_path_(r, doc)
        return leaf.replace(kwargs=kw)
    if c < 88:
        name = r.choice(VARPOS)
        args = [G.key(r) for _ in range(r.between(1, 3))]
        for i in r.subset(list(range(len(args))), 1, 2):
            args[i] = ref_path_(r, doc)
        return Leaf("value", None, name, args=tuple(args))
    kw = {k: G.scalar(r) for k in r.subset(["a", "b", "c", "abc"], 1, 3)}
    for k in r.subset(list(kw), 1, 2):
        kw[k] = ref_path_(r, doc)
    return Leaf("value", None, "items_contain", kwargs=kw)


def substitute(t, fn):
    """Copy of condition tree t with every PathT argument replaced by fn(path)."""
    if isinstance(t, Op):
        return Op(t.op, substitute(t.l, fn), substitute(t.r, fn))
    if isinstance(t, Leaf):
        return t.replace(args=tuple(fn(a) if isinstance(a, PathT) else a for a in t.args),
                         kwargs={k: (fn(v) if isinstance(v, PathT) else v) for k, v in t.kwargs.items()})
    return t


def all_nodes(doc):
    """(node, concrete path) for every node reachable through primitive-able keys."""
    out = []

    def rec(n, p):
        out.append((n, p))
        if len(p) >= 3:
            return
        if isinstance(n, (dict, list)):
            for k, c in model.items_of(n):
                if isinstance(k, (str, int, float, bool)):
                    rec(c, p + (k,))

    rec(doc, ())
    return out[1:]


def related_leaf(r, doc, tested):
    """A leaf whose path argument refers to a node related to a tested node, so that the
    cross-reference decides the verdict."""
    if not tested:
        return None
    v, vp = r.choice(tested)
    nodes = all_nodes(doc)
    c = r.pct()
    if c < 40:
        same = [p for n, p in nodes if exact(n) == exact(v)]
        if same:
            return Leaf("value", None, r.choice(["equal_to", "equal_to", "not_equal_to"]), kwargs={"value": PathT([Prim(k) for k in r.choice(same)])})
    if c < 70 and vp and all(isinstance(k, (str, int, float, bool)) for k in vp[:-1]):
        parent = model.walk(doc, vp[:-1])
        pp = PathT([Prim(k) for k in vp[:-1]])
        if isinstance(parent, dict):
            pp.datum = "map_values"
        if vp[:-1] or isinstance(parent, dict):
            return Leaf("value", None, r.choice(["in_", "not_in"]), kwargs={"value": pp})
    if isinstance(v, (int, float)) and not isinstance(v, bool):
        nums = [p for n, p in nodes if isinstance(n, (int, float)) and not isinstance(n, bool)]
        if nums:
            return Leaf("value", None, r.choice(SINGLE[2:6]), kwargs={"value": PathT([Prim(k) for k in r.choice(nums)])})
    if isinstance(v, dict) and v:
        keys_nodes = [p for n, p in nodes if isinstance(n, (str, int)) and n in v]
        if keys_nodes:
            return Leaf("value", None, r.choice(["required_keys", "keys_contain_any_of", "forbidden_keys"]), args=(PathT([Prim(k) for k in r.choice(keys_nodes)]),))
    return None


def graft_branches(r, d):
    """Adds to `d` a container of sibling branches of which only some lead to the referenced node - the others match the
    next part and then dead-end - and returns a reference path `host / * / k / target` whose first / last selected node
    lies in a branch that is not the first / last one walked (seeded C17-o: an early exit per level)."""
    k, tgt, other = r.choice(["runs", "a", 1]), r.choice(["limit", "b", 0]), r.choice(["name", "c"])
    multi = r.choice(["first", "first", "last", "all"])
    dead = lambda: {k: r.choice([{other: G.scalar(r)}, G.scalar(r), [], {}])}
    live = lambda: {k: {tgt: G.scalar(r), other: G.scalar(r)} if r.coin() else {tgt: G.scalar(r)}}
    deads = [dead() for _ in range(r.between(1, 2))]
    lives = [live() for _ in range(r.between(1, 2))]
    branches = lives + deads if multi == "last" else deads + lives
    if r.coin(30):
        branches.insert(r.below(len(branches) + 1), dead())
    as_map = r.coin(40)
    cont = {f"g{i}": b for i, b in enumerate(branches)} if as_map else branches
    if isinstance(d, dict):
        host = r.choice(["groups", "grp", 7])
        d[host] = cont
    else:
        host = len(d)
        d.append(cont)
    fan = Part("map" if as_map and r.coin() else "list" if not as_map and r.coin() else "mol")
    return PathT([Prim(host), fan, Prim(k), Prim(tgt)], None, multi, r.choice(["dm", "md"]))


def gen_case(r):
    d = G.doc(r, 4 if r.coin(60) else 3)
    forced = graft_branches(r, d) if r.pct() < 7 else None
    p = G.guided_path(r, d, max_len=3, miss=10, mode="typed", meaningful=True)
    leaf = None
    if forced is not None:
        name = r.choice(SINGLE)
        leaf = Leaf("value", None, name, kwargs={("key" if name == "keys_contain" else "value"): forced})
    elif r.coin(55):
        tested = model.ref_select(p.parts, d) if p.parts else []
        leaf = related_leaf(r, d, tested)
    if leaf is None:
        leaf = same_base_leaves(r, d) if r.pct() < 22 else gen_leaf_with_paths(r, d, allow_range=True)
    t = leaf
    if r.coin(35):
        o = G.tree(r, ("value",), "typed", 1, meaningful=True) if r.coin() else gen_leaf_with_paths(r, d)
        t = Op(r.choice(["and", "or", "xor"]), t, o) if r.coin() else Op(r.choice(["and", "or", "xor"]), o, t)
    rule = RuleT(p, t)
    via_spec = r.coin(45)
    sp = SP.Spelling(r)
    if r.coin(50):
        # positional (list / tuple) argument forms carrying path items are the rarer spellings: ask for them more often
        sp.bias = {"arg-shape": 80, "arg-tuple": 60}
    spec = SP.rule_spec(rule, sp) if via_spec else None
    return d, rule, spec, r.coin()


def body(case):
    doc, rule, spec, wrap = case
    out = Outcome()
    ns = build.ns()
    undefined = [False]

    def res(p):
        try:
            return model.ref_resolve(p, doc)
        except (model.Undefined, model.RefError):
            undefined[0] = True
            return None

    lit_cond = substitute(rule.cond, res)
    none_cond = substitute(rule.cond, lambda p: None)
    if undefined[0]:
        out.label("resolution-undefined-skipped")
        return out
    rule_lit = rule.replace(cond=lit_cond)
    ref = model.ref_rule_test(rule_lit, doc)
    ref_direct = model.ref_rule_test(rule, doc)
    ref_none = model.ref_rule_test(rule.replace(cond=none_cond), doc)
    exists = any(res(a) not in (None, []) for l in leaves(rule.cond) for a in list(l.args) + list(l.kwargs.values()) if isinstance(a, PathT))
    out.nontrivial = exists and (ref["valid"] != ref_none["valid"] or len(ref["fails"]) != len(ref_none["fails"]))
    out.label("via-spec" if spec is not None else "via-api", "reference-exists" if exists else "reference-absent",
              *[f"callable:{l.name}" for l in leaves(rule.cond) if any(isinstance(a, PathT) for a in list(l.args) + list(l.kwargs.values()))])
    for l in leaves(rule.cond):
        for a in list(l.args) + list(l.kwargs.values()):
            if isinstance(a, PathT) and a.multi in ("first", "last") and len(a.parts) >= 3 and not model.is_concrete(a.parts):
                # does a sibling branch that matches a prefix of the path dead-end before the selected node's branch?
                sel = model.ref_select(a.parts, doc)
                pre = model.ref_select(a.parts[:-1], doc)
                if sel and len(pre) > len({pth[:-1] for _, pth in sel}):
                    out.label("path-arg:first/last-past-a-dead-ending-branch")
    out.sample = f"{show(rule,450)} on {show(doc,200)}"
    if ref["valid"] != ref_direct["valid"] or ref["fails"] != ref_direct["fails"]:
        out.add("harness", "harness|model-inconsistent", "reference with resolver and with literals disagree")
        return out
    try:
        if spec is not None:
            with warnings.catch_warnings():
                warnings.simplefilter("ignore")
                R = ns.r.Rule.from_spec(SP.recycled(spec, ns.r.Rule.from_spec) or copy.deepcopy(spec))
        else:
            with build.sharing():  # path arguments with the same parts derive from one base object
                R = build.build_rule(rule)
        Rlit = build.build_rule(rule_lit)
    except Exception as e:
        out.exc("build", e)
        return out
    data = ns.da.Data(doc) if wrap else doc
    try:
        rt = R.test(data)
        rt_lit = Rlit.test(data)
    except Exception as e:
        out.exc("test-raised", e)
        return out
    check_rule_test(out, rt, ref, doc, prefix="path-args-")
    check_rule_test(out, rt_lit, ref, doc, prefix="literal-args-")
    a = (rt.is_valid, [exact(tuple(f.path)) for f in rt.failures])
    b = (rt_lit.is_valid, [exact(tuple(f.path)) for f in rt_lit.failures])
    if a != b:
        out.add("path-equals-literal", "path-equals-literal", f"with paths {a!r}, with resolved literals {b!r}")
    # the same rule object then judges the document's type-twin (every 1 a 1.0, every True a 1 ...: equal by ==, not
    # the same document): the path arguments are looked up in the document being validated
    if not out.violations:
        doc2 = twin_doc(doc)
        if exact(doc2) != exact(doc):
            try:
                ref2 = model.ref_rule_test(rule, doc2)
            except Exception:
                ref2 = None
            und2 = [False]
            res2_ = model.make_resolver(doc2)
            for l in leaves(rule.cond):
                for a_ in list(l.args) + list(l.kwargs.values()):
                    if isinstance(a_, PathT):
                        try:
                            res2_(a_)
                        except Exception:
                            und2[0] = True
            if ref2 is not None and not und2[0]:
                out.label("type-twin-document-next")
                try:
                    rt2 = R.test(ns.da.Data(doc2) if wrap else doc2)
                except Exception as e:
                    out.exc("test-raised|twin-document", e)
                    return out
                check_rule_test(out, rt2, ref2, doc2, prefix="twin-document-")
    return out


def twin_doc(x):
    if isinstance(x, dict):
        return {k: twin_doc(v) for k, v in x.items()}
    if isinstance(x, list):
        return [twin_doc(v) for v in x]
    if isinstance(x, bool):
        return int(x)
    if isinstance(x, int) and -2**53 < x < 2**53:
        return float(x)
    if isinstance(x, float) and x.is_integer() and abs(x) < 2**53:
        return int(x)
    return x


# ------------------------------------------------------------------ escaped literals
def gen_escaped(r):
    d = G.doc(r, 3)
    lit = c11.pathy_literal(r)
    # keep only literals that have an escaped spelling
    name = r.choice(["equal_to", "not_equal_to", "in_", "items_contain", "required_keys"])
    if name in ("equal_to", "not_equal_to"):
        leaf = Leaf("value", None, name, kwargs={"value": lit})
    elif name == "in_":
        leaf = Leaf("value", None, "in_", kwargs={"value": [lit, 1]})
    elif name == "items_contain":
        leaf = Leaf("value", None, "items_contain", kwargs={"a": lit})
    else:
        leaf = Leaf("value", None, "allowed_keys", args=("a", "b"))
        leaf = Leaf("value", None, "equal_to", kwargs={"value": lit})
    # plant the literal in the document so that the comparison can succeed
    if isinstance(d, dict):
        d["lit"] = copy.deepcopy(lit) if name != "items_contain" else {"a": copy.deepcopy(lit)}
        path = PathT([Prim("lit")]) if r.coin() else PathT([Part("map")])
    else:
        d.append(copy.deepcopy(lit) if name != "items_contain" else {"a": copy.deepcopy(lit)})
        path = PathT([Part("list")])
    rule = RuleT(path, leaf)
    return d, rule, SP.rule_spec(rule, SP.Spelling(r))


def body_escaped(case):
    doc, rule, spec = case
    out = Outcome()
    ns = build.ns()
    out.nontrivial = SP.needs_escape(next(iter(leaves(rule.cond)[0].kwargs.values()))) if rule.cond.name != "in_" else True
    out.sample = show(spec, 400)
    try:
        with warnings.catch_warnings():
            warnings.simplefilter("ignore")
            R = ns.r.Rule.from_spec(SP.recycled(spec, ns.r.Rule.from_spec) or copy.deepcopy(spec))
        Rlit = build.build_rule(rule)
    except Exception as e:
        out.exc("build-escaped", e)
        return out
    if not (R == Rlit and Rlit == R):
        out.add("escaped-literal", "escaped-literal|equal", f"spec {show(spec,300)} parsed to {show(R,250)}, literal rule {show(Rlit,250)}")
        return out
    ref = model.ref_rule_test(rule, doc)
    try:
        rt = R.test(doc)
    except Exception as e:
        out.exc("test-raised", e)
        return out
    check_rule_test(out, rt, ref, doc, prefix="escaped-")
    return out


def tests(tier):
    return [
        TestSpec("path-args", gen_case, body, {"quick": 4000, "thorough": 300000}, tape=2048, fuzz={"thorough": 40000}),
        TestSpec("escaped", gen_escaped, body_escaped, {"quick": 800, "thorough": 40000}, tape=768, fuzz={"thorough": 40000}),
    ]
