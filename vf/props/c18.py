"""C18 - add_schema adds re-rooted rules and leaves the added schema intact."""
import copy

from ..runner import TestSpec, Outcome
from ..terms import Null, Leaf, Op, Prim, Part, PathT, RuleT, SchemaT, show
from .. import model, build, gen as G
from ..snapshot import exact, fingerprint, fp_diff
from .c05 import check_rule_test

ID = "C18"
RULE = (
    "histories over 2-3 target schemas S, 1-2 source schemas T (0-3 rules each, with casts and docs), 2-3 root paths R "
    "(concrete and non-concrete, length 0-2, document-guided) and 2 documents: a program of 2-10 steps add(S_i, T_j, R_k) "
    "in any order - the same T under different roots into the same S and into different S - and validate(S_i, doc) in "
    "between. The model keeps every S's expected rule list (previous rules, then T's rules re-rooted on FRESH objects - root part objects followed by the rule path's part objects - stable-sorted by path length). After EVERY step: S.rules == expected element-wise (both "
    "directions); S.validate(doc) equals the reference over the expected rule terms (verdict, failing paths per rule, cast "
    "data); every T's fingerprint is unchanged, T.rules == a freshly built T, T validates as before; for a concrete root "
    "whose node is a non-empty container, T.validate(node) failures re-rooted at R equal the added rules' failures. "
    "Non-trivial: one T is added >=2 times (different roots or different S) and an S is validated afterwards."
)
ASSUMPTIONS = [
    "the expectation is built with the library's own path concatenation '/', which yields a non-concrete path object even from concrete operands (== distinguishes it)",
]


def gen_case(r):
    deep = r.pct() < 7
    d = G.deep_chain(r) if deep else G.hostile_doc(r, 4)
    roots = []
    for _ in range(r.between(2, 3)):
        # (long roots: re-rooted rules of 8 and more parts next to short ones)
        roots.append(G.guided_path(r, d, max_len=(r.choice([7, 8, 9]) if deep and r.coin(70) else 2 if r.pct() >= 6 else 6), miss=10, mode="typed", prim_only=r.coin(65)))
    Ts = []
    for _ in range(r.between(1, 2)):
        root = r.choice(roots)
        sel = model.ref_select(root.parts, d) if root.parts else [(d, ())]
        conts = [v for v, _ in sel if isinstance(v, (dict, list)) and v]
        sub = r.choice(conts) if conts else d
        Ts.append(G.schema_for(r, sub, min_rules=0, max_rules=3, mode="typed", cast_p=35, cond_depth=1, max_len=2, with_doc=True))
    Ss = [G.schema_for(r, d, min_rules=0, max_rules=2, mode="typed", cast_p=20, cond_depth=1, max_len=3) for _ in range(r.between(2, 3))]
    if r.pct() < 3:
        # a target that already holds many rules (thresholds in the bookkeeping of add_schema)
        base = G.rule_for(r, d, mode="typed", cond_depth=0, max_len=2)
        many = [base.replace(path=PathT(list(base.path.parts) + [Prim(f"k{i}")] * (i % 3))) for i in range(r.choice([64, 70, 100]))]
        Ss[0] = SchemaT(list(Ss[0].rules) + many)
    prog = []
    for _ in range(r.between(2, 10)):
        if r.pct() < 62:
            prog.append(("add", r.below(len(Ss)), r.below(len(Ts)), r.below(len(roots))))
        else:
            prog.append(("validate", r.below(len(Ss)), r.below(2)))
    prog.append(("validate", r.below(len(Ss)), 0))
    # how each root is handed to add_schema: a DataPath, a DataPath bound to the first document
    # (source_data=), or - for a single string key - the bare string
    styles = []
    for rp in roots:
        c = r.pct()
        if c < 12:
            styles.append("bound")
        elif c < 30 and len(rp.parts) == 1 and isinstance(rp.parts[0], Prim) and isinstance(rp.parts[0].v, str):
            styles.append("str")
        else:
            styles.append("path")
    return Ss, Ts, roots, [d, G.hostile_doc(r, 3)], prog, styles


def summ(vd):
    return (vd.is_valid, vd.num_failures, vd.num_rules_tested,
            [[exact(tuple(f.path)) for f in rt.failures] for rt in vd.rule_tests], exact(vd.cast_data))


def drive(gen, prog):
    """Run a history generator (one `op = yield` per step, returns the Outcome) over a program."""
    try:
        next(gen)
        for op in prog:
            gen.send(op)
        gen.send(None)
    except StopIteration as e:
        return e.value
    raise AssertionError("history generator did not finish")


def body(case):
    Ss, Ts, roots, docs, prog, styles = case
    return drive(history(Ss, Ts, roots, docs, styles), prog)


def history(Ss, Ts, roots, docs, styles=None):
    """Interpreter of a C18 history as a coroutine: every `op = yield` receives the next
    operation (None = end); all invariants are checked after every step.  Driven by the
    program-as-data test and by the Hypothesis state machine."""
    prog = []
    out = Outcome()
    ns = build.ns()
    try:
        S = [build.build_schema(s) for s in Ss]
        T = [build.build_schema(t) for t in Ts]
        Rts = []
        for i, rp in enumerate(roots):
            st_ = (styles or [])[i] if styles and i < len(styles) else "path"
            if st_ == "bound":
                Rts.append(build.build_path(rp, source_data=docs[0]))
            elif st_ == "str":
                Rts.append(rp.parts[0].v)
            else:
                Rts.append(build.build_path(rp))
    except Exception as e:
        out.exc("build", e)
        return out
    # model: expected (term, kind) lists, in the library's order
    exp = []
    for s in Ss:
        order = model.rule_order(s.rules)
        exp.append([("own", s.rules[i], None) for i in order])
    t_sorted = [[t.rules[i] for i in model.rule_order(t.rules)] for t in Ts]
    try:
        t_fp = [fingerprint(t) for t in T]
        t_beh = [[summ(t.validate(copy.deepcopy(d))) for d in docs] for t in T]
    except Exception as e:
        out.exc("validate-T-before", e)
        return out
    added = {}
    n_adds = {}
    validated_after_multi = False
    out.evals = 0
    step_i = -1
    while True:
        op = yield
        if op is None:
            break
        step_i += 1
        prog.append(op)
        out.evals += 1
        if op[0] == "add":
            _, si, ti, ri = op
            try:
                S[si].add_schema(T[ti], Rts[ri])
            except Exception as e:
                out.exc("add_schema-raised", e)
                break
            added[ti] = added.get(ti, set()) | {(si, ri)}
            n_adds[(si, ti, ri)] = n_adds.get((si, ti, ri), 0) + 1
            new = [("added", RuleT(PathT(list(roots[ri].parts) + list(t.path.parts)), t.cond, t.cast, t.doc), (ri, t, ti)) for t in t_sorted[ti]]
            cur = exp[si] + new
            exp[si] = sorted(cur, key=lambda x: len(x[1].path.parts))
            # --- S.rules == expected, element-wise
            try:
                exp_objs = []
                for kind, term, extra in exp[si]:
                    if kind == "own":
                        exp_objs.append(build.build_rule(term))
                    else:
                        ri2, t, _ti = extra
                        # the re-rooted path: the root's part objects followed by the rule path's part
                        # objects (a path built from part objects is non-concrete, like the result of
                        # the library's '/'; the expectation deliberately does not call '/')
                        exp_objs.append(ns.r.Rule(path=ns.d.DataPath(*build.build_path(roots[ri2]).parts, *build.build_path(t.path).parts),
                                                  condition=build.build_cond(t.cond), cast=build.build_cast(t.cast)))
                got = list(S[si].rules)
                if len(got) != len(exp_objs):
                    out.add("rules-added", "rules-added|count", f"step {step_i} {op}: S has {len(got)} rules, expected {len(exp_objs)}")
                    break
                def same_rule(a, b):
                    # equal rules; a re-rooted path may be reported concrete or not (the statement
                    # does not say), so paths are compared by their parts and modifiers
                    if a == b and b == a:
                        return True
                    try:
                        return (a.condition == b.condition and a.cast == b.cast and tuple(a.path.parts) == tuple(b.path.parts)
                                and a.path.DATUM_TYPE == b.path.DATUM_TYPE and a.path.MULTI_TYPE == b.path.MULTI_TYPE)
                    except Exception:
                        return False

                bad = [k for k, (a, b) in enumerate(zip(got, exp_objs)) if not same_rule(a, b)]
                if bad:
                    k = bad[0]
                    out.add("rules-added", "rules-added|re-rooted-rule", f"step {step_i} {op}: rule {k} is {show(got[k],250)}, expected {show(exp_objs[k],250)}")
                    break
            except Exception as e:
                out.exc("compare-rules", e)
                break
        else:
            _, si, di = op
            if any(len(v) >= 2 for v in added.values()):
                validated_after_multi = True
        # --- behaviour of every S on a document (after every step)
        si = op[1]
        di = op[2] if op[0] == "validate" else 0
        d = docs[di]
        ref = model.ref_schema_validate(SchemaT([t for _, t, _ in exp[si]]), d)
        try:
            vd = S[si].validate(copy.deepcopy(d))
        except Exception as e:
            out.exc("validate-raised", e)
            break
        if vd.is_valid is not ref["valid"] or vd.num_failures != ref["nfail"] or exact(vd.cast_data) != exact(ref["cast"]) or len(vd.rule_tests) != len(ref["tests"]):
            out.add("judges-as-before-plus-T", "judges-as-before-plus-T|aggregate",
                    f"step {step_i} {op}: valid={vd.is_valid} nfail={vd.num_failures} expected {ref['valid']} {ref['nfail']}; cast {show(vd.cast_data,120)} expected {show(ref['cast'],120)}")
            break
        for rt, (i, rref) in zip(vd.rule_tests, ref["tests"]):
            check_rule_test(out, rt, rref, ref["cast"], prefix="S-rule-", scalars_only=True)
        if out.violations:
            break
        # --- T intact
        for ti, t in enumerate(T):
            fp = fingerprint(t)
            if fp != t_fp[ti]:
                out.add("T-unchanged", "T-unchanged|fingerprint", f"step {step_i} {op}: T{ti}: {fp_diff(t_fp[ti], fp)}")
                break
            try:
                fresh = build.build_schema(Ts[ti])
                if not (t.rules == fresh.rules and fresh.rules == t.rules):
                    out.add("T-unchanged", "T-unchanged|rules", f"step {step_i} {op}: T{ti}.rules = {show(t.rules,250)} expected {show(fresh.rules,250)}")
                    break
                beh = [summ(t.validate(copy.deepcopy(dd))) for dd in docs]
                if beh != t_beh[ti]:
                    out.add("T-unchanged", "T-unchanged|behaviour", f"step {step_i} {op}: T{ti} validates differently after the addition")
                    break
            except Exception as e:
                out.exc("T-unchanged", e)
                break
        if out.violations:
            break
        # --- metamorphic: T's own judgement of what lies at a concrete root
        if op[0] == "add":
            _, si, ti, ri = op
            rp = roots[ri]
            if model.is_concrete(rp.parts) and not any(t.cast for t in Ts[ti].rules) and not any(x[1].cast for x in exp[si]):
                sel = model.ref_select(rp.parts, d) if rp.parts else [(d, ())]
                if len(sel) == 1 and isinstance(sel[0][0], (dict, list)) and sel[0][0]:
                    node, npath = sel[0]
                    try:
                        tv = build.build_schema(Ts[ti]).validate(copy.deepcopy(node))
                        t_fail = sorted(exact(tuple(npath) + tuple(f.path)) for rt in tv.rule_tests for f in rt.failures)
                    except Exception as e:
                        out.exc("metamorphic-T-validate", e)
                        break
                    s_fail = sorted(
                        exact(tuple(f.path))
                        for rt, (kind, term, extra) in zip(vd.rule_tests, exp[si])
                        if kind == "added" and extra[0] == ri and extra[2] == ti
                        for f in rt.failures
                    )
                    # several additions of the same (T, R) into S multiply the failures
                    mult = n_adds.get((si, ti, ri), 1)
                    if s_fail != sorted(t_fail * max(1, mult)):
                        out.add("judges-as-before-plus-T", "metamorphic|T-at-root",
                                f"step {step_i} {op}: T.validate(node at R) fails at {t_fail!r} (re-rooted) but S's added rules fail at {s_fail!r}"[:600])
                        break
                    out.label("metamorphic-checked")
    out.nontrivial = validated_after_multi
    out.sample = f"S={show(Ss,200)} T={show(Ts,250)} roots={show(roots,150)} program={prog}"
    return out


def machine(seed, n, record):
    """Hypothesis RuleBasedStateMachine over the same interpreter: the schemas, roots and
    documents are decoded from a tape at initialisation; every rule draws ONE operation."""
    import hypothesis as hy
    from hypothesis import strategies as st
    from hypothesis.stateful import RuleBasedStateMachine, rule, initialize, run_state_machine_as_test
    from ..runner import hyp_settings

    idx = st.integers(0, 255)

    class M(RuleBasedStateMachine):
        def __init__(self):
            super().__init__()
            self.g = None
            self.done = None
            self.prog = []

        @initialize(t=st.binary(min_size=3072, max_size=3072))
        def setup(self, t):
            gc = gen_case(G.R(t))
            self.static = gc[:4]
            self.styles = gc[5]
            self.g = history(*self.static, self.styles)
            try:
                next(self.g)
            except StopIteration as e:
                self.done = e.value

        def send(self, op):
            if self.done is not None or self.g is None:
                return
            self.prog.append(op)
            try:
                self.g.send(op)
            except StopIteration as e:
                self.done = e.value

        @rule(si=idx, ti=idx, ri=idx)
        def add(self, si, ti, ri):
            Ss, Ts, roots, docs = self.static
            self.send(("add", si % len(Ss), ti % len(Ts), ri % len(roots)))

        @rule(si=idx, di=st.integers(0, 1))
        def validate(self, si, di):
            self.send(("validate", si % len(self.static[0]), di))

        def teardown(self):
            if self.g is None:
                return
            if self.done is None:
                self.send(("validate", 0, 0))
            if self.done is None:
                try:
                    self.g.send(None)
                except StopIteration as e:
                    self.done = e.value
            if self.done is not None:
                record(tuple(self.static) + (list(self.prog), self.styles), self.done)

    run_state_machine_as_test(hy.seed(seed)(M), settings=hy.settings(hyp_settings(n), stateful_step_count=12))


# ------------------------------------------------------------------ unobserved additions, shared rule lists
def gen_blind(r):
    d = G.hostile_doc(r, 3)
    S = G.schema_for(r, d, min_rules=0, max_rules=3, mode="typed", cast_p=20, cond_depth=1, max_len=3)
    root = G.guided_path(r, d, max_len=2, miss=10, mode="typed", prim_only=r.coin(70))
    sel = model.ref_select(root.parts, d) if root.parts else [(d, ())]
    conts = [v for v, _ in sel if isinstance(v, (dict, list)) and v]
    sub = r.choice(conts) if conts else d
    T = G.schema_for(r, sub, min_rules=1, max_rules=2, mode="typed", cast_p=35, cond_depth=1, max_len=2)
    U = G.schema_for(r, sub, min_rules=1, max_rules=2, mode="typed", cast_p=20, cond_depth=1, max_len=2)
    root2 = G.guided_path(r, sub, max_len=1, miss=20, mode="typed", prim_only=True)
    if S.rules and r.pct() < 15:
        # a T that compares EQUAL to S (same rules) and is still another schema: its rules carry their own doc blocks
        T = SchemaT([rl.replace(doc=G.doc_block(r)) for rl in S.rules])
    return S, T, U, root, root2, d, r.coin(60), r.coin(50)


def rerooted(root, t):
    return RuleT(PathT(list(root.parts) + list(t.path.parts)), t.cond, t.cast, t.doc)


def body_blind(case):
    """S.add_schema(T, R) and then - with NOTHING read from S in between - T itself receives U (T.add_schema(U, R2)).
    S holds what T was when it was added.  A second schema built from the very same list of rule objects as S is a
    bystander: it keeps judging as S did before the addition."""
    S, T, U, root, root2, doc, grow, twin = case
    out = Outcome()
    ns = build.ns()
    out.nontrivial = grow or twin
    out.label("T-grows-afterwards" if grow else "T-left-alone", "bystander-from-same-list" if twin else "no-bystander")
    out.sample = f"S={show(S,150)} T={show(T,150)} at {show(root,80)}; then U={show(U,120)} into T at {show(root2,60)}"
    try:
        order = model.rule_order(S.rules)
        rule_objs = [build.build_rule(S.rules[i]) for i in order]  # shortest path first already
        s = ns.s.Schema(rule_objs)
        s2 = ns.s.Schema(rule_objs) if twin else None
        t = build.build_schema(T)
        u = build.build_schema(U)
        R, R2 = build.build_path(root), build.build_path(root2)
    except Exception as e:
        out.label("build-refused")
        out.nontrivial = False
        return out
    try:
        if len(repr(root)) % 2:
            s.add_schema(schema=t, root_path=R)  # the documented parameter names
        else:
            s.add_schema(t, R)
        if grow:
            t.add_schema(u, R2)
    except Exception as e:
        out.exc("add_schema-raised", e)
        return out
    t_sorted = [T.rules[i] for i in model.rule_order(T.rules)]
    u_sorted = [U.rules[i] for i in model.rule_order(U.rules)]
    exp_s = SchemaT(sorted([S.rules[i] for i in order] + [rerooted(root, x) for x in t_sorted], key=lambda x: len(x.path.parts)))
    exp_t = SchemaT(sorted(t_sorted + ([rerooted(root2, x) for x in u_sorted] if grow else []), key=lambda x: len(x.path.parts)))
    # the rules S received are T's: each carries the doc block of the rule of T it was made from
    try:
        want_docs = sorted(repr(x.doc) for x in t_sorted if x.doc is not None)
        own = {id(o) for o in rule_objs}
        got_docs = sorted(repr(o.doc) for o in s.rules if id(o) not in own and o.doc)
        norm = lambda d_: sorted(str(x).replace(" ", "") for x in d_)
        if any(x.doc is not None for x in t_sorted) and len(got_docs) != len(want_docs):
            out.add("rules-added", "rules-added|doc-blocks", f"the rules added to S carry doc blocks {got_docs!r}; T's rules carry {want_docs!r}"[:500])
            return out
    except Exception as e:
        out.exc("rules-added|docs", e)
        return out
    checks = [("S", s, exp_s), ("T", t, exp_t)]
    if twin:
        checks.append(("bystander", s2, SchemaT([S.rules[i] for i in order])))
    out.evals = 0
    for name, obj, exp in checks:
        out.evals += 1
        ref = model.ref_schema_validate(exp, doc)
        try:
            n = len(obj.rules)
            vd = obj.validate(copy.deepcopy(doc))
        except Exception as e:
            out.exc(f"validate-raised|{name}", e)
            return out
        if n != len(exp.rules):
            out.add("rules-added", f"rules-added|count|{name}", f"{name} has {n} rules, expected {len(exp.rules)}")
            return out
        if vd.is_valid is not ref["valid"] or vd.num_failures != ref["nfail"] or exact(vd.cast_data) != exact(ref["cast"]):
            out.add("judges-as-before-plus-T", f"judges-as-before-plus-T|unobserved|{name}",
                    f"{name}: valid={vd.is_valid} nfail={vd.num_failures} expected {ref['valid']} {ref['nfail']}; cast {show(vd.cast_data,120)} expected {show(ref['cast'],120)}")
            return out
    return out


def tests(tier):
    return [
        TestSpec("unobserved-and-shared", gen_blind, body_blind, {"quick": 1500, "thorough": 120000}, tape=3072),
        TestSpec("add-schema-history", gen_case, body, {"quick": 500, "thorough": 50000}, tape=4096, fuzz={"thorough": 5000}),
        TestSpec("add-schema-machine", gen_case, body, {"quick": 100, "thorough": 8000}, tape=4096, machine=machine),
    ]
