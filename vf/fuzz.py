"""Coverage-guided fuzz layer (atheris / libFuzzer) over the same tape decoders and the same
property bodies as the Hypothesis layer.  The semantic oracle is inside the target: a
violation is recorded (bucketed by signature) and the campaign continues.

child:   python -m vf.fuzz child <PROP> <test index> <outdir> <src> -- <libFuzzer args>
parent:  run_campaign(...) is called by the runner in the thorough tier.

libFuzzer ends the process without running atexit handlers, so the child appends every new
bucket to <outdir>/buckets.jsonl as it is found and rewrites <outdir>/stats.json every 500
executions.
"""
import os
import sys
import json
import time
import hashlib
import subprocess

VERIF = os.path.dirname(os.path.dirname(os.path.abspath(__file__)))
DEPS = os.path.join(VERIF, ".deps")


def ensure_atheris():
    if os.path.isdir(os.path.join(DEPS, "atheris")):
        return True
    r = subprocess.run(
        [sys.executable, "-m", "pip", "install", "-q", "--no-index", "--find-links", "/opt/veriftools/wheels",
         "--target", DEPS, "atheris"], capture_output=True, text=True)
    return os.path.isdir(os.path.join(DEPS, "atheris"))


def child(argv):
    prop_name, test_idx, outdir, src = argv[0], int(argv[1]), argv[2], argv[3]
    lf_args = argv[argv.index("--") + 1:] if "--" in argv else []
    sys.path.insert(0, DEPS)
    import atheris

    sys.path.insert(0, VERIF)
    from vf import runner

    sys.path.insert(0, src)
    with atheris.instrument_imports(include=["valida"], enable_loader_override=False):
        import valida
        import valida.conditions, valida.datapath, valida.rules, valida.schema, valida.data, valida.casting, valida.callables  # noqa
    runner.setup_repo(src)
    prop = runner.load_prop(prop_name)
    test = runner.get_tests(prop, "thorough")[test_idx]
    factors = test.factors if test.factors is not None else [None]
    col = runner.Collector()
    seen = set()
    state = {"n": 0, "t0": time.time()}
    os.makedirs(outdir, exist_ok=True)
    bpath = os.path.join(outdir, "buckets.jsonl")
    spath = os.path.join(outdir, "stats.json")

    def flush_stats():
        with open(spath + ".tmp", "w") as fh:
            json.dump({"executions": state["n"], "nontrivial": len(col.nontrivial), "cases": col.cases,
                       "evals": col.evals, "timeouts": col.timeouts, "harness_errors": col.harness_errors[:1],
                       "labels": dict(col.labels.most_common(60)), "samples": col.samples[:3],
                       "wall": round(time.time() - state["t0"], 1)}, fh)
        os.replace(spath + ".tmp", spath)

    def one(data):
        state["n"] += 1
        if test.factors is not None:
            if len(data) < 2:
                return
            fi = ((data[0] << 8) | data[1]) % len(factors)
            tape = bytes(data[2:])
        else:
            fi, tape = 0, bytes(data)
        try:
            case = test.decode(tape, factors[fi])
        except Exception:
            return
        runner.run_body(test, case, col, {"factor": fi, "shard": -2, "seed": 0, "n": 1, "fuzz": True}, timeout=None, tape=tape)
        for sig, b in col.buckets.items():
            if sig not in seen:
                seen.add(sig)
                rec = dict(b)
                rec["tape"] = b["tape"].hex() if b.get("tape") is not None else None
                with open(bpath, "a") as fh:
                    fh.write(json.dumps(rec) + "\n")
        if state["n"] % 500 == 0:
            flush_stats()

    flush_stats()
    atheris.Setup([sys.argv[0]] + lf_args, one)
    atheris.Fuzz()


def seed_corpus(d, test, seed, n=24):
    """A few pseudo-random tapes (hash expansion of the seed; no RNG) as a starting corpus."""
    os.makedirs(d, exist_ok=True)
    for i in range(n):
        buf = b""
        k = 0
        while len(buf) < test.tape + 2:
            buf += hashlib.blake2b(f"{seed}:{i}:{k}".encode(), digest_size=64).digest()
            k += 1
        with open(os.path.join(d, f"seed{i}"), "wb") as fh:
            fh.write(buf[: test.tape + 2])


def run_campaign(prop_name, prop, test_idx, test, src, seed, runs, procs=8, timeout=3600):
    """Run `procs` independent libFuzzer processes (half from an empty corpus, half from a
    small pseudo-random corpus); returns (buckets, stats)."""
    import shutil
    import tempfile

    if not ensure_atheris():
        return [], {"error": "atheris could not be installed offline"}
    base = os.path.join(VERIF, ".fuzz", f"{prop.ID}-{test.name}-{os.getpid()}")
    shutil.rmtree(base, ignore_errors=True)
    os.makedirs(base)
    ps = []
    for k in range(procs):
        out = os.path.join(base, f"p{k}")
        corpus = os.path.join(out, "corpus")
        os.makedirs(corpus)
        if k % 2 == 1:
            seed_corpus(corpus, test, seed * 1000 + k)
        lf = [corpus, f"-runs={runs}", f"-seed={(seed * 7919 + k) % (2**31 - 2) + 1}", f"-max_len={test.tape + 2}",
              "-timeout=60", "-rss_limit_mb=4096", "-print_final_stats=1", "-verbosity=0", "-len_control=0",
              f"-artifact_prefix={out}/"]
        env = dict(os.environ)
        env["PYTHONPATH"] = DEPS + os.pathsep + VERIF
        env["PYTHONHASHSEED"] = "0"
        log = open(os.path.join(out, "log"), "w")
        ps.append((k, out, subprocess.Popen(
            [sys.executable, "-m", "vf.fuzz", "child", prop_name, str(test_idx), out, src, "--"] + lf,
            cwd=VERIF, env=env, stdout=log, stderr=subprocess.STDOUT)))
    t_end = time.time() + timeout
    for k, out, p in ps:
        try:
            p.wait(timeout=max(1, t_end - time.time()))
        except subprocess.TimeoutExpired:
            p.kill()
    buckets = []
    stats = {"processes": procs, "runs_each": runs, "executions": 0, "nontrivial": 0, "cases": 0, "evals": 0,
             "timeouts": 0, "harness_errors": [], "final": [], "exit_codes": []}
    for k, out, p in ps:
        stats["exit_codes"].append(p.returncode)
        sp = os.path.join(out, "stats.json")
        if os.path.exists(sp):
            s = json.load(open(sp))
            for f in ("executions", "nontrivial", "cases", "evals", "timeouts"):
                stats[f] += s.get(f, 0)
            stats["harness_errors"].extend(s.get("harness_errors", []))
            if k == 0:
                stats["sample_labels"] = s.get("labels", {})
                stats["samples"] = s.get("samples", [])
        bp = os.path.join(out, "buckets.jsonl")
        if os.path.exists(bp):
            for line in open(bp):
                b = json.loads(line)
                b["tape"] = bytes.fromhex(b["tape"]) if b.get("tape") else None
                buckets.append(b)
        try:
            tail = open(os.path.join(out, "log")).read()[-1500:]
            for line in tail.splitlines():
                if "cov:" in line and ("DONE" in line or "stat::" in line):
                    stats["final"].append(line.strip()[:160])
        except OSError:
            pass
    shutil.rmtree(base, ignore_errors=True)
    return buckets, stats


if __name__ == "__main__":
    if len(sys.argv) > 1 and sys.argv[1] == "child":
        child(sys.argv[2:])
