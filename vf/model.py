"""Reference semantics, written from the documented meaning.  Imports nothing from valida.

The model is the oracle for C01-C07, C15, C17, C18.  Any exception while evaluating a
leaf means "the comparison is not defined for this item" -> the item does not satisfy
the condition.
"""
import copy

from .terms import Null, Leaf, Op, Prim, Part, PathT, RuleT, SchemaT, simp


class Undefined(Exception):
    pass


def _keys(d):
    if not isinstance(d, dict):
        raise Undefined
    return d.keys()


def _items_contain(d, **items):
    ks = _keys(d)
    for k, v in items.items():
        if k not in ks or d[k] != v:
            return False
    return True


SEM = {
    "equal_to": lambda x, value: x == value,
    "not_equal_to": lambda x, value: x != value,
    "less_than": lambda x, value: x < value,
    "greater_than": lambda x, value: x > value,
    "less_than_or_equal_to": lambda x, value: x <= value,
    "greater_than_or_equal_to": lambda x, value: x >= value,
    "in_": lambda x, value: x in value,
    "not_in": lambda x, value: x not in value,
    "in_range": lambda x, lower, upper: x in range(lower, upper),
    "not_in_range": lambda x, lower, upper: x not in range(lower, upper),
    "equal_to_approx": lambda x, value, tolerance=1e-8: abs(x - value) < tolerance,
    "factor_of": lambda x, value: value % x == 0,
    "has_factor": lambda x, value: x % value == 0,
    "truthy": lambda x: bool(x),
    "falsy": lambda x: not x,
    "null": lambda x: True,
    "is_instance": lambda x, *classes: isinstance(x, classes),
    "keys_contain": lambda d, key: key in _keys(d),
    "keys_contain_any_of": lambda d, *keys: any(k in _keys(d) for k in keys),
    "keys_contain_all_of": lambda d, *keys: all(k in _keys(d) for k in keys),
    "keys_contain_N_of": lambda d, N, keys: sum(k in _keys(d) for k in keys) == N,
    "keys_contain_at_least_N_of": lambda d, N, keys: sum(k in _keys(d) for k in keys) >= N,
    "keys_contain_at_most_N_of": lambda d, N, keys: sum(k in _keys(d) for k in keys) <= N,
    "keys_contain_one_of": lambda d, *keys: sum(k in _keys(d) for k in keys) == 1,
    "keys_contain_at_least_one_of": lambda d, keys: sum(k in _keys(d) for k in keys) >= 1,
    "keys_contain_at_most_one_of": lambda d, keys: sum(k in _keys(d) for k in keys) <= 1,
    "keys_equal_to": lambda d, *keys: set(_keys(d)) == set(keys),
    "keys_is_instance": lambda d, *classes: all(isinstance(k, classes) for k in _keys(d)),
    "items_contain": _items_contain,
    "allowed_keys": lambda d, *keys: set(_keys(d)) <= set(keys),
    "required_keys": lambda d, *keys: set(keys) <= set(_keys(d)),
    "forbidden_keys": lambda d, *keys: not (set(keys) & set(_keys(d))),
}

GENERAL = [
    "equal_to", "not_equal_to", "less_than", "greater_than", "less_than_or_equal_to",
    "greater_than_or_equal_to", "in_", "not_in", "in_range", "not_in_range",
    "equal_to_approx", "factor_of", "has_factor", "truthy", "falsy", "null", "is_instance",
]
MAPC = [k for k in SEM if k not in GENERAL]
ALL = GENERAL + MAPC

# callables whose comparison can be undefined for some item at all
NEVER_UNDEFINED = {"equal_to", "not_equal_to", "truthy", "falsy", "null", "is_instance"}


def leaf_shapes():
    """The 149 DSL-reachable leaf shapes (kind, pre, name)."""
    out = []
    for kind in ("value", "key"):
        for name in ALL:
            out.append((kind, None, name))
        for pre in ("length", "dtype"):
            for name in GENERAL:
                out.append((kind, pre, name))
    for name in GENERAL:
        out.append(("index", None, name))
    return out


def items_of(container):
    if isinstance(container, dict):
        return list(container.items())
    return list(enumerate(container))


def leaf_eval_ex(leaf, key, value, resolve=None):
    """-> (bool result, undefined flag)"""
    datum = value if leaf.kind == "value" else key
    try:
        if leaf.pre == "length":
            datum = len(datum)
        elif leaf.pre == "dtype":
            datum = type(datum)
        args, kwargs = leaf.args, leaf.kwargs
        if resolve is not None:
            args = tuple(resolve(a) for a in args)
            kwargs = {k: resolve(v) for k, v in kwargs.items()}
        r = SEM[leaf.name](datum, *args, **kwargs)
    except Exception:
        return False, True
    if not isinstance(r, bool):
        raise AssertionError(f"model produced non-bool for {leaf!r}: {r!r}")
    return r, False


def leaf_eval(leaf, key, value, resolve=None):
    return leaf_eval_ex(leaf, key, value, resolve)[0]


def tree_eval(t, key, value, resolve=None):
    t = simp(t)
    return _tree_eval(t, key, value, resolve)


def _tree_eval(t, key, value, resolve):
    if isinstance(t, Null):
        return True
    if isinstance(t, Leaf):
        return leaf_eval(t, key, value, resolve)
    a = _tree_eval(t.l, key, value, resolve)
    b = _tree_eval(t.r, key, value, resolve)
    if t.op == "and":
        return a and b
    if t.op == "or":
        return a or b
    if t.op == "xor":
        return a != b
    raise AssertionError(t.op)


def tree_undefined(t, key, value, resolve=None):
    """True if some leaf of the tree is undefined on this item."""
    from .terms import leaves

    return any(leaf_eval_ex(l, key, value, resolve)[1] for l in leaves(simp(t)))


def ref_filter(t, container, resolve=None):
    st = simp(t)
    return [_tree_eval(st, k, v, resolve) for k, v in items_of(container)]


# --------------------------------------------------------------------------- paths
def part_children(part, node):
    """Children of `node` matched by `part`, in document order, as (key, child)."""
    if not isinstance(node, (dict, list)) or not node:
        return []
    is_list = isinstance(node, list)
    out = []
    if isinstance(part, Prim):
        v = part.v
        if isinstance(v, (str, float)) and is_list:
            return []  # str / float parts address mapping keys only
        for k, c in items_of(node):
            if k == v:
                out.append((k, c))
        return out
    if part.ctype == "map" and is_list:
        return []
    if part.ctype == "list" and not is_list:
        return []
    if getattr(part, "generic", False) and part.ctype == "mol" and isinstance(simp(part.key), Leaf):
        if is_list:
            return []  # a key-like condition in the generic slot does not apply to a list
    kc = simp(part.index if is_list else part.key)
    vc = simp(part.value)
    for k, c in items_of(node):
        if _tree_eval(kc, k, c, None) and _tree_eval(vc, k, c, None):
            out.append((k, c))
    return out


def part_skips(part, node):
    """True if the part does not apply to the node at all (wrong kind/scalar/empty)."""
    if not isinstance(node, (dict, list)) or not node:
        return True
    is_list = isinstance(node, list)
    if isinstance(part, Prim):
        return isinstance(part.v, (str, float)) and is_list
    return (part.ctype == "map" and is_list) or (part.ctype == "list" and not is_list)


def ref_select(parts, doc):
    """[(node, concrete_path_tuple)] in document order."""
    frontier = [(doc, ())]
    for p in parts:
        nf = []
        for node, path in frontier:
            for k, c in part_children(p, node):
                nf.append((c, path + (k,)))
        frontier = nf
    return frontier


def select_stats(parts, doc):
    """Classification of a (path, doc) pair for the non-triviality rules."""
    frontier = [(doc, ())]
    fan_levels = 0
    skipped = False
    for p in parts:
        nf = []
        for node, path in frontier:
            if part_skips(p, node):
                skipped = True
                continue
            ch = part_children(p, node)
            for k, c in ch:
                nf.append((c, path + (k,)))
        if len(nf) > len(frontier) or (len(nf) >= 2 and len(frontier) == 1):
            fan_levels += 1
        frontier = nf
    return {"n": len(frontier), "fan_levels": fan_levels, "skipped": skipped}


def is_concrete(parts):
    return all(isinstance(p, Prim) for p in parts)


DATUM_FUNCS = {
    "length": len,
    "dtype": type,
    "map_keys": lambda n: list(n.keys()),
    "map_values": lambda n: list(n.values()),
}


def datum_defined(datum, node):
    if datum is None or datum == "dtype":
        return True
    if datum == "length":
        return isinstance(node, (str, list, dict))
    return isinstance(node, dict)


def walk(doc, path):
    node = doc
    for k in path:
        node = node[k]
    return node


class RefError(Exception):
    """The reference says the library is expected to raise (e.g. `single` with >1)."""


def ref_resolve(path, doc):
    """What `path.get_data(doc)` is documented to return (values only).

    concrete -> the node or None; non-concrete -> list; with datum modifier f applied to
    each selected node; multiplicity first/last/single/all on a non-empty selection.
    Returns RefError class if the documented outcome is an error; raises Undefined if
    the statement does not define the outcome (datum modifier undefined on a node, or a
    multiplicity modifier on an empty selection).
    """
    sel = [n for n, _ in ref_select(path.parts, doc)]
    conc = is_concrete(path.parts)
    if not path.parts:
        sel = [doc]
    if not sel:
        if path.multi in ("first", "last", "single"):
            raise Undefined
        return None if conc else []
    if path.datum:
        if not all(datum_defined(path.datum, n) for n in sel):
            raise Undefined
        sel = [DATUM_FUNCS[path.datum](n) for n in sel]
    if conc:
        return sel[0]
    if path.multi == "first":
        return sel[0]
    if path.multi == "last":
        return sel[-1]
    if path.multi == "single":
        if len(sel) > 1:
            raise RefError
        return sel[0]
    return sel


# --------------------------------------------------------------------------- rules
def make_resolver(doc):
    """Resolver of data-path arguments (C17) against the validated document."""

    def resolve(a):
        if isinstance(a, PathT):
            return ref_resolve(a, doc)
        return a

    return resolve


def has_path_args(cond):
    from .terms import leaves

    for l in leaves(cond):
        for a in list(l.args) + list(l.kwargs.values()):
            if isinstance(a, PathT):
                return True
    return False


def ref_rule_test(rule, doc, judged_on=None):
    """-> dict(valid, tested, fails=[(value, path)], sel=[(value,path)])

    `judged_on`: the document whose nodes are judged (the cast copy for cast rules);
    selection is made there too.
    """
    d = doc if judged_on is None else judged_on
    parts = rule.path.parts
    sel = ref_select(parts, d) if parts else [(d, ())]
    resolve = make_resolver(d) if has_path_args(rule.cond) else None
    c = simp(rule.cond)
    fails = [(v, p) for v, p in sel if not _tree_eval(c, None, v, resolve)]
    return {"valid": not fails, "tested": bool(sel), "fails": fails, "sel": sel}


def cast_bool(s):
    if s.lower() == "true":
        return True
    if s.lower() == "false":
        return False
    raise ValueError(s)


def cast_value(cast, v):
    """-> (ok, new value)"""
    if not isinstance(v, str) or isinstance(v, bool):
        return False, v
    try:
        return True, (cast_bool(v) if cast == "bool" else int(v))
    except (ValueError, TypeError):
        return False, v


def rule_order(rules):
    """Indices of rules in application order: stable sort by path length."""
    return sorted(range(len(rules)), key=lambda i: len(rules[i].path.parts))


def ref_schema_validate(schema, doc):
    """-> dict(order, tests=[(rule_index, ref_rule_test)], cast=copy, valid, nfail, ntested)"""
    order = rule_order(schema.rules)
    cp = copy.deepcopy(doc)
    tests = []
    for i in order:
        r = schema.rules[i]
        if r.cast:
            sel = ref_select(r.path.parts, doc) if r.path.parts else [(doc, ())]
            for v, pth in sel:
                ok, nv = cast_value(r.cast, v)
                if ok and pth:
                    node = cp
                    for k in pth[:-1]:
                        node = node[k]
                    node[pth[-1]] = nv
            tests.append((i, ref_rule_test(r, doc, judged_on=cp)))
        else:
            tests.append((i, ref_rule_test(r, doc)))
    return {
        "order": order,
        "tests": tests,
        "cast": cp,
        "valid": all(t["valid"] for _, t in tests),
        "nfail": sum(len(t["fails"]) for _, t in tests),
        "ntested": sum(1 for _, t in tests if t["tested"]),
    }
