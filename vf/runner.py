"""Runner: seeded, sharded Hypothesis search with collect-then-shrink, known findings,
replays and evidence.  See DESIGN.md section 2.6."""
import os
import sys
import json
import time
import signal
import fnmatch
import hashlib
import traceback
import collections
import multiprocessing

VERIF = os.path.dirname(os.path.dirname(os.path.abspath(__file__)))


# --------------------------------------------------------------------------- data types
class V:
    """A violation of one clause of a property."""

    __slots__ = ("clause", "sig", "detail")

    def __init__(self, clause, sig=None, detail=""):
        self.clause = clause
        self.sig = sig or clause
        self.detail = str(detail)[:600]

    def __repr__(self):
        return f"V({self.sig!r}, {self.detail!r})"


class Outcome:
    def __init__(self):
        self.violations = []
        self.nontrivial = False
        self.labels = []
        self.excluded = 0  # sub-checks skipped because they can only hit a known finding
        self.sample = None  # optional readable rendering of the case
        self.evals = 1  # number of oracle evaluations this case stands for

    def add(self, clause, sig=None, detail=""):
        self.violations.append(V(clause, sig, detail))

    def exc(self, clause, e):
        from .build import exc_sig, exc_detail

        self.violations.append(V(clause, exc_sig(clause, e), exc_detail(e)))

    def label(self, *ls):
        self.labels.extend(ls)


class TestSpec:
    """One generated check of a property.

    gen    : callable(R[, factor]) -> case; decodes one case from a byte tape drawn by
             Hypothesis (st.binary of fixed length `tape`)
    body   : callable(case) -> Outcome
    n      : {'quick': cases, 'thorough': cases} (total over all shards; per factor when
             `factors` is given, in which case every factor is enumerated)
    """

    def __init__(self, name, gen, body, n, factors=None, tape=1024, show=None, fuzz=None, machine=None):
        self.machine = machine  # None or callable(seed, n, record): a Hypothesis RuleBasedStateMachine driver
        self.fuzz = fuzz  # None or {'thorough': libFuzzer runs per process} (atheris layer)
        self.name = name
        self.gen = gen
        self.body = body
        self.n = n
        self.factors = factors
        self.tape = tape
        self.show = show

    def decode(self, tape, factor):
        from .gen import R

        if self.factors is not None:
            return self.gen(R(tape), factor)
        return self.gen(R(tape))


class CaseTimeout(BaseException):
    """Raised by the per-case watchdog.  Not an Exception: a property body's own `except Exception` handlers must not
    turn a time budget hit into a finding (it is counted as a timeout, i.e. inconclusive)."""


def _alarm(signum, frame):
    raise CaseTimeout()


# --------------------------------------------------------------------------- collector
def _tb():
    """Traceback text without Hypothesis's (long) falsifying-example dump."""
    t = traceback.format_exc()
    t = "\n".join(l[:300] for l in t.split("Falsifying example")[0].splitlines() if "\\x00\\x00\\x00" not in l)
    return t if len(t) <= 4000 else t[:1200] + "\n...\n" + t[-2800:]


class Collector:
    def __init__(self):
        self.evals = 0
        self.cases = 0
        self.nontrivial = set()
        self.labels = collections.Counter()
        self.buckets = {}
        self.samples = []
        self.excluded = 0
        self.timeouts = 0
        self.harness_errors = []

    def record(self, test, case, out, origin, tape=None):
        from .terms import enc, case_hash, show

        self.cases += 1
        self.evals += out.evals
        self.excluded += out.excluded
        for l in out.labels:
            self.labels[l] += 1
        h = None
        if out.nontrivial:
            h = case_hash(case)
            self.nontrivial.add(h)
            if len(self.samples) < 6:
                self.samples.append(
                    {"test": test.name, "case": out.sample or (test.show(case) if test.show else show(case, 600))}
                )
        for v in out.violations:
            b = self.buckets.get(v.sig)
            e = None
            if b is None or b["size"] > 200:
                e = json.dumps(enc(case), sort_keys=True)
            if b is None:
                self.buckets[v.sig] = {
                    "sig": v.sig, "clause": v.clause, "detail": v.detail, "count": 1,
                    "test": test.name, "case": e, "size": len(e), "origin": origin, "tape": tape,
                }
            else:
                b["count"] += 1
                if e is not None and len(e) < b["size"]:
                    b.update(case=e, size=len(e), detail=v.detail, origin=origin, tape=tape)

    def merge(self, o):
        self.evals += o.evals
        self.cases += o.cases
        self.nontrivial |= o.nontrivial
        self.labels.update(o.labels)
        self.excluded += o.excluded
        self.timeouts += o.timeouts
        self.harness_errors.extend(o.harness_errors)
        for s in o.samples:
            if len(self.samples) < 8:
                self.samples.append(s)
        for sig, b in o.buckets.items():
            m = self.buckets.get(sig)
            if m is None:
                self.buckets[sig] = dict(b)
            else:
                m["count"] += b["count"]
                if b["size"] < m["size"]:
                    cnt = m["count"]
                    m.update(b)
                    m["count"] = cnt


# --------------------------------------------------------------------------- execution
def run_body(test, case, col, origin, timeout=20, tape=None):
    """Run one case through the property body with watchdog and escape handling."""
    from .build import exc_sig, exc_detail

    if timeout:
        old = signal.signal(signal.SIGALRM, _alarm)
        signal.setitimer(signal.ITIMER_REAL, timeout)
    try:
        try:
            out = test.body(case)
        finally:
            if timeout:
                signal.setitimer(signal.ITIMER_REAL, 0)
                signal.signal(signal.SIGALRM, old)
    except CaseTimeout:
        col.timeouts += 1
        return None
    except RecursionError as e:
        sig = exc_sig("unexpected-exception", e)
        if sig.endswith("outside-valida"):
            # the harness's own recursion ran out (model / snapshot on a very deep term): inconclusive, not a finding
            col.timeouts += 1
            return None
        out = Outcome()
        out.violations.append(V("unexpected-exception", sig, exc_detail(e)))
    except Exception as e:
        sig = exc_sig("unexpected-exception", e)
        if sig.endswith("outside-valida"):
            col.harness_errors.append(_tb())
            return None
        out = Outcome()
        out.violations.append(V("unexpected-exception", sig, exc_detail(e)))
    col.record(test, case, out, origin, tape)
    return out


def derive_seed(base, *parts):
    h = hashlib.blake2b(repr((base,) + parts).encode(), digest_size=4).digest()
    return int.from_bytes(h, "big")


def hyp_settings(n, shrink=False):
    from hypothesis import settings, HealthCheck, Phase

    return settings(
        max_examples=max(1, n),
        database=None,
        deadline=None,
        derandomize=False,
        report_multiple_bugs=False,
        suppress_health_check=list(HealthCheck),
        phases=[Phase.generate, Phase.shrink] if shrink else [Phase.generate],
        print_blob=False,
    )


def _worker(args):
    prop_name, test_idx, tier, base_seed, shard, nshards, src = args
    setup_repo(src)
    prop = load_prop(prop_name)
    test = get_tests(prop, tier)[test_idx]
    col = Collector()
    import hypothesis
    from hypothesis import given, strategies as st

    n_total = test.n[tier]
    factors = test.factors if test.factors is not None else [None]
    t0 = time.time()
    if test.machine is not None:
        # stateful: the machine executes histories step by step and hands every finished
        # history (as a program-as-data case of this test) to the collector
        n = max(1, n_total // nshards)
        s = derive_seed(base_seed, test.name, "machine", shard)
        origin = {"factor": 0, "shard": shard, "seed": s, "n": n, "machine": True}

        def record(case, out):
            col.record(test, case, out, origin, None)

        try:
            test.machine(s, n, record)
        except Exception:
            col.harness_errors.append(_tb())
        return col
    for fi, factor in enumerate(factors):
        if test.factors is not None:
            # factors are enumerated exhaustively; every shard draws its own share of
            # cases for each factor
            n = max(1, n_total // nshards)
        else:
            n = max(1, n_total // nshards)
        s = derive_seed(base_seed, test.name, fi, shard)
        origin = {"factor": fi, "shard": shard, "seed": s, "n": n}
        strat = st.binary(min_size=test.tape, max_size=test.tape)

        def mk(origin_, factor_):
            def one(tape):
                run_body(test, test.decode(tape, factor_), col, origin_, tape=tape)

            return one

        t = hypothesis.seed(s)(hyp_settings(n)(given(strat)(mk(origin, factor))))
        try:
            t()
        except Exception:
            col.harness_errors.append(_tb())
    return col


def shrink_bucket(prop, tier, test_idx, bucket, budget_s):
    """Minimise the byte tape that produced the bucket's smallest violation (truncate to
    a zero suffix, zero chunks, delete chunks, lower bytes), re-running the property body
    on every candidate; bounded by a wall-clock budget.  Returns (case_json, shrunk?)."""
    from .terms import enc

    test = get_tests(prop, tier)[test_idx]
    tape = bucket.get("tape")
    if tape is None:
        return bucket["case"], False
    factors = test.factors if test.factors is not None else [None]
    factor = factors[bucket["origin"]["factor"]]
    sig = bucket["sig"]
    t_end = time.time() + budget_s
    L = len(tape)

    def fails(t):
        if time.time() > t_end:
            return False
        col = Collector()
        try:
            case = test.decode(bytes(t), factor)
        except Exception:
            return False
        out = run_body(test, case, col, bucket["origin"])
        return out is not None and any(v.sig == sig for v in out.violations)

    cur = bytearray(tape)
    if not fails(cur):
        return bucket["case"], False
    # 1. shortest prefix followed by zeros
    lo, hi = 0, L
    while lo < hi and time.time() < t_end:
        mid = (lo + hi) // 2
        cand = cur[:mid] + bytearray(L - mid)
        if fails(cand):
            hi = mid
            cur = cand
        else:
            lo = mid + 1
    used = hi
    improved = True
    while improved and time.time() < t_end:
        improved = False
        # 2. delete chunks (shifts the rest left)
        for size in (64, 16, 4, 2, 1):
            i = 0
            while i + size <= used and time.time() < t_end:
                cand = cur[:i] + cur[i + size:] + bytearray(size)
                if cand != cur and fails(cand):
                    cur = cand
                    used = max(0, used - size)
                    improved = True
                else:
                    i += size
        # 3. zero chunks
        for size in (32, 8, 2, 1):
            i = 0
            while i < used and time.time() < t_end:
                if any(cur[i:i + size]):
                    cand = bytearray(cur)
                    cand[i:i + size] = bytearray(len(cand[i:i + size]))
                    if fails(cand):
                        cur = cand
                        improved = True
                i += size
        # 4. lower single bytes
        for i in range(used):
            if time.time() > t_end:
                break
            b = cur[i]
            for nb in (b // 2, b - 1):
                if 0 < nb < b:
                    cand = bytearray(cur)
                    cand[i] = nb
                    if fails(cand):
                        cur = cand
                        improved = True
                        break
    case = test.decode(bytes(cur), factor)
    return json.dumps(enc(case), sort_keys=True), True


# --------------------------------------------------------------------------- known findings
def load_known(prop_id):
    """known_findings.txt lines:
        known: property=<ID> sig=<glob> :: <text>
        fixed: property=<ID> <commit> <text>        (suppresses nothing)
    """
    path = os.path.join(VERIF, "known_findings.txt")
    out = []
    if not os.path.exists(path):
        return out
    for line in open(path, encoding="utf-8"):
        line = line.strip()
        if not line.startswith("known:"):
            continue
        body = line[len("known:"):].strip()
        if not body.startswith(f"property={prop_id} "):
            continue
        rest = body[len(f"property={prop_id} "):]
        if not rest.startswith("sig="):
            continue
        sig, _, text = rest[4:].partition(" :: ")
        out.append((sig.strip(), text.strip()))
    return out


def match_known(known, sig):
    for pat, text in known:
        if sig == pat or fnmatch.fnmatchcase(sig, pat):
            return text
    return None


# --------------------------------------------------------------------------- setup
def setup_repo(src=None):
    src = src or os.environ.get("VERIF_REPO") or "/repo"
    src = os.path.abspath(src)
    if sys.path[0] != src:
        sys.path.insert(0, src)
    import valida

    vf = os.path.abspath(valida.__file__)
    if not vf.startswith(src + os.sep):
        print(f"HARNESS-ERROR: valida imported from {vf}, expected under {src}")
        sys.exit(2)
    return src


QUICK_BOOST = 2.0  # the quick tier runs on 8 processes: twice the case counts stated in the property modules


def get_tests(prop, tier):
    tests = prop.tests(tier)
    scale = float(os.environ.get("VERIF_SCALE", "1") or 1)
    if tier == "quick":
        scale *= QUICK_BOOST
    if scale != 1:
        for t in tests:
            t.n = {k: max(1, int(v * scale)) for k, v in t.n.items()}
    return tests


def load_prop(name):
    import importlib

    return importlib.import_module(f"vf.props.{name.lower()}")


def replay_dir(prop_id):
    return os.path.join(VERIF, "replays", prop_id)


def run_replays(prop, tier, col_by_test):
    """Committed replays (shrunk reproductions of every defect found so far + boundary
    cases) run first, through the same property bodies, bypassing Hypothesis."""
    from .terms import dec

    d = replay_dir(prop.ID)
    n = 0
    if not os.path.isdir(d):
        return 0
    tests = {t.name: (i, t) for i, t in enumerate(get_tests(prop, tier))}
    for fn in sorted(os.listdir(d)):
        if not fn.endswith(".json"):
            continue
        rec = json.load(open(os.path.join(d, fn)))
        if rec.get("test") not in tests:
            continue
        i, t = tests[rec["test"]]
        try:
            case = dec(rec["case"])
        except Exception:
            print(f"note: replay {fn} skipped (cannot be decoded)")
            continue
        tmp = Collector()
        run_body(t, case, tmp, {"factor": 0, "shard": -1, "seed": 0, "n": 1, "replay": fn})
        if tmp.harness_errors:
            # a replay recorded with an older case layout of this check: not a finding
            print(f"note: replay {fn} skipped (recorded with an older case layout)")
            continue
        col_by_test[i].merge(tmp)
        n += 1
    return n


def write_replay(prop, tier, seed, test, bucket, case_json, shrunk):
    d = os.path.join(VERIF, "evidence", "replays", prop.ID)
    os.makedirs(d, exist_ok=True)
    h = hashlib.blake2b((test.name + "|" + bucket["sig"]).encode(), digest_size=6).hexdigest()
    path = os.path.join(d, f"{h}.json")
    rec = {
        "property": prop.ID, "test": test.name, "clause": bucket["clause"],
        "sig": bucket["sig"], "detail": bucket["detail"], "seed": seed, "tier": tier,
        "shrunk": shrunk, "case": json.loads(case_json),
    }
    with open(path, "w") as fh:
        json.dump(rec, fh, indent=1, sort_keys=True)
    return path


def main(argv=None):
    import argparse

    ap = argparse.ArgumentParser()
    ap.add_argument("prop")
    ap.add_argument("--tier", default=os.environ.get("VERIF_TIER") or "quick", choices=["quick", "thorough"])
    ap.add_argument("--replay")
    ap.add_argument("--src")
    ap.add_argument("--workers", type=int)
    ap.add_argument("--scale", type=float, default=float(os.environ.get("VERIF_SCALE", "1")))
    ap.add_argument("--no-evidence", action="store_true")
    a = ap.parse_args(argv)
    try:
        seed = int(os.environ.get("VERIF_SEED", "1"))
    except ValueError:
        seed = 1
    t0 = time.time()
    try:
        src = setup_repo(a.src)
        prop = load_prop(a.prop)
    except SystemExit:
        raise
    except Exception:
        traceback.print_exc()
        print("HARNESS-ERROR: cannot import valida / property module")
        return 2
    tier = a.tier
    known = load_known(prop.ID)

    if a.replay:
        return do_replay(prop, tier, a.replay, known)

    os.environ["VERIF_SCALE"] = str(a.scale)
    tests = get_tests(prop, tier)
    nshards = a.workers or (8 if tier == "quick" else 16)
    cols = [Collector() for _ in tests]
    n_replays = run_replays(prop, tier, cols)
    jobs = []
    for ti, t in enumerate(tests):
        for sh in range(nshards):
            jobs.append((a.prop, ti, tier, seed, sh, nshards, src))
    ctx = multiprocessing.get_context("fork")
    overall = float(os.environ.get("VERIF_TIMEOUT", "900" if tier == "quick" else "7200"))
    with ctx.Pool(min(nshards, len(jobs)) or 1) as pool:
        try:
            results = pool.map_async(_worker, jobs, chunksize=1).get(timeout=overall)
        except multiprocessing.TimeoutError:
            pool.terminate()
            print(f"HARNESS-ERROR: inconclusive - the search did not finish within {overall:.0f}s "
                  f"(a case did not terminate in C code, where the per-case watchdog cannot interrupt)")
            return 2
    # scale must reach workers too
    for job, col in zip(jobs, results):
        cols[job[1]].merge(col)

    # coverage-guided layer (atheris / libFuzzer) over the same decoders and bodies
    fuzz_stats = {}
    if os.environ.get("VERIF_NO_FUZZ") != "1":
        for ti, t in enumerate(tests):
            runs = (t.fuzz or {}).get(tier)
            if not runs:
                continue
            from . import fuzz as fz

            runs = max(1, int(runs * a.scale))
            fb, fs = fz.run_campaign(a.prop, prop, ti, t, src, seed, runs, procs=8 if tier == "thorough" else 4,
                                     timeout=min(overall, float(os.environ.get("VERIF_FUZZ_TIMEOUT", "900"))))
            fuzz_stats[t.name] = fs
            fc = Collector()
            fc.evals = fs.get("evals", 0)
            fc.cases = fs.get("cases", 0)
            fc.timeouts = fs.get("timeouts", 0)
            fc.harness_errors = list(fs.get("harness_errors", []))
            for b in fb:
                m = fc.buckets.get(b["sig"])
                if m is None or b["size"] < m["size"]:
                    fc.buckets[b["sig"]] = b
            cols[ti].merge(fc)
            cols[ti].fuzz_nontrivial = fs.get("nontrivial", 0)

    total = Collector()
    for c in cols:
        total.merge(c)

    status = 0
    lines = []
    known_hit = {}
    new_violations = []
    for ti, (t, c) in enumerate(zip(tests, cols)):
        for sig, b in sorted(c.buckets.items()):
            text = match_known(known, sig)
            if text is not None:
                known_hit[text] = known_hit.get(text, 0) + b["count"]
                continue
            new_violations.append((ti, t, b))
    for text, cnt in sorted(known_hit.items()):
        lines.append(f"KNOWN-FINDING: property={prop.ID} {text} [{cnt} cases]")
    max_shrunk = 5 if tier == "quick" else 8
    total_budget = 30 if tier == "quick" else 480
    shrink_budget = max(4, total_budget / max(1, min(len(new_violations), max_shrunk)))
    reported = []
    for ti, t, b in new_violations[:max_shrunk]:
        if b["origin"].get("replay"):
            case_json, shrunk = b["case"], False
        else:
            try:
                case_json, shrunk = shrink_bucket(prop, tier, ti, b, shrink_budget)
            except Exception:
                case_json, shrunk = b["case"], False
        path = write_replay(prop, tier, seed, t, b, case_json, shrunk)
        rel = os.path.relpath(path, VERIF)
        lines.append(f"VIOLATION property={prop.ID} replay={rel}")
        lines.append(f"  clause={b['clause']} sig={b['sig']} count={b['count']}")
        lines.append(f"  detail={b['detail']}")
        reported.append({"sig": b["sig"], "clause": b["clause"], "count": b["count"], "detail": b["detail"], "replay": rel})
        status = 1
    for ti, t, b in new_violations[max_shrunk:]:
        path = write_replay(prop, tier, seed, t, b, b["case"], False)
        rel = os.path.relpath(path, VERIF)
        lines.append(f"  (further bucket, not shrunk) clause={b['clause']} sig={b['sig']} count={b['count']} replay={rel}")
        reported.append({"sig": b["sig"], "clause": b["clause"], "count": b["count"], "detail": b["detail"], "replay": rel})

    if total.harness_errors:
        print("HARNESS-ERROR: exceptions outside valida escaped a property body:")
        print(total.harness_errors[0])
        if status == 0:
            status = 2

    wall = time.time() - t0
    if not a.no_evidence and status != 2:
        ev = {
            "property_id": prop.ID,
            "tier": tier,
            "seed": seed,
            "level": "exploration",
            "coverage": {
                "evaluations": total.evals,
                "cases": total.cases,
                "distinct_nontrivial": len(total.nontrivial),
                "rule": prop.RULE,
                "samples": total.samples[:8],
                "classes": dict(sorted(total.labels.items())),
                "per_test": {
                    t.name: {"cases": c.cases, "evaluations": c.evals, "distinct_nontrivial": len(c.nontrivial)}
                    for t, c in zip(tests, cols)
                },
                "exhaustive_factors": {t.name: len(t.factors) for t in tests if t.factors is not None},
                "replays_run": n_replays,
                "known_findings_hit": known_hit,
                "excluded_by_known_finding": total.excluded,
                "inconclusive_timeouts": total.timeouts,
                "new_violations": reported,
                "shards": nshards,
                "fuzz": fuzz_stats,
                "repo": src,
            },
            "assumptions": getattr(prop, "ASSUMPTIONS", []),
            "wall_s": round(wall, 2),
            "violations": len(new_violations),
        }
        os.makedirs(os.path.join(VERIF, "evidence"), exist_ok=True)
        with open(os.path.join(VERIF, "evidence", f"{prop.ID}.json"), "w") as fh:
            json.dump(ev, fh, indent=1, sort_keys=True, default=str)
    for l in lines:
        print(l)
    print(
        f"{prop.ID} tier={tier} seed={seed} cases={total.cases} evaluations={total.evals} "
        f"nontrivial={len(total.nontrivial)} violations={len(new_violations)} "
        f"known={len(known_hit)} timeouts={total.timeouts} wall={wall:.1f}s"
    )
    return status


def do_replay(prop, tier, path, known):
    from .terms import dec

    rec = json.load(open(path))
    tests = {t.name: t for t in prop.tests(tier)}
    t = tests.get(rec["test"])
    if t is None:
        print(f"HARNESS-ERROR: unknown test {rec['test']!r} in replay")
        return 2
    col = Collector()
    case = dec(rec["case"])
    run_body(t, case, col, {"factor": 0, "shard": -1, "seed": 0, "n": 1, "replay": os.path.basename(path)})
    if col.harness_errors:
        print("HARNESS-ERROR:", col.harness_errors[0])
        return 2
    status = 0
    for sig, b in sorted(col.buckets.items()):
        text = match_known(known, sig)
        if text is not None:
            print(f"KNOWN-FINDING: property={prop.ID} {text}")
            continue
        print(f"VIOLATION property={prop.ID} replay={path}")
        print(f"  clause={b['clause']} sig={sig}")
        print(f"  detail={b['detail']}")
        status = 1
    if status == 0:
        print(f"{prop.ID} replay {os.path.basename(path)}: property held")
    return status
