"""Builders: term -> valida objects through the public Python API only."""
from .terms import Null, Leaf, Op, Prim, Part, PathT, RuleT, SchemaT


def V():
    """Lazy import of valida names (valida is imported from $VERIF_REPO by the runner)."""
    import valida
    import valida.conditions as c
    import valida.datapath as d
    import valida.rules as r
    import valida.schema as s
    import valida.data as da
    import valida.casting as ca
    import valida.errors as e

    class NS:
        pass

    ns = NS()
    ns.valida, ns.c, ns.d, ns.r, ns.s, ns.da, ns.ca, ns.e = valida, c, d, r, s, da, ca, e
    return ns


_ns = None


def ns():
    global _ns
    if _ns is None:
        _ns = V()
    return _ns


def leaf_cls(leaf):
    c = ns().c
    base = {"value": c.Value, "key": c.Key, "index": c.Index}[leaf.kind]
    if leaf.pre:
        base = getattr(base, leaf.pre)
    return base


def build_arg(a, depth=0):
    if isinstance(a, PathT):
        return build_path(a)
    if depth == 0 and isinstance(a, (list, tuple)):
        return type(a)(build_arg(x, 1) for x in a)
    if depth == 0 and isinstance(a, dict):
        return {k: build_arg(v, 1) for k, v in a.items()}
    return a


def build_leaf(t):
    if SHARE is not None:
        # under sharing(), structurally equal leaves are ONE object (as a user re-using a
        # condition object in several parts / rules does)
        from .terms import dumps
        key = ("leaf", dumps(t))
        if key in SHARE:
            return SHARE[key]
    args = tuple(build_arg(a) for a in t.args)
    kwargs = {k: build_arg(v) for k, v in t.kwargs.items()}
    obj = getattr(leaf_cls(t), t.name)(*args, **kwargs)
    if SHARE is not None:
        SHARE[key] = obj
    return obj


def build_cond(t):
    if isinstance(t, Null):
        return ns().c.NullCondition()
    if isinstance(t, Leaf):
        return build_leaf(t)
    l = build_cond(t.l)
    r = l if getattr(t, "same", False) else build_cond(t.r)
    if t.op == "and":
        return l & r
    if t.op == "or":
        return l | r
    return l ^ r


def _opt(t):
    return None if isinstance(t, Null) else build_cond(t)


def build_part(p):
    d = ns().d
    if isinstance(p, Prim):
        return p.v
    if p.ctype == "map":
        return d.MapValue(key=_opt(p.key), value=_opt(p.value), label=p.label)
    if p.ctype == "list":
        return d.ListValue(index=_opt(p.index), value=_opt(p.value), label=p.label)
    if getattr(p, "generic", False) and _opt(p.key) is not None:
        return d.MapOrListValue(condition=_opt(p.key), index=_opt(p.index), value=_opt(p.value), label=p.label)
    return d.MapOrListValue(
        key=_opt(p.key), index=_opt(p.index), value=_opt(p.value), label=p.label
    )


def apply_modifiers(obj, path):
    steps = []
    if path.datum:
        steps.append(path.datum)
    if path.multi:
        steps.append(path.multi)
    if path.order == "md":
        steps.reverse()
    for s in steps:
        obj = getattr(obj, s)()
    return obj


SHARE = None  # when a dict: DataPath base objects are shared between paths with the same parts


class sharing:
    """with build.sharing(): paths that have the same parts are derived from ONE base
    DataPath object (as a user writing `base = DataPath(...); base.length(); base.first()`
    does), so that state hidden in shared path objects becomes observable."""

    def __enter__(self):
        global SHARE
        self.prev = SHARE
        SHARE = {}
        return self

    def __exit__(self, *a):
        global SHARE
        SHARE = self.prev
        return False


def build_path(path, source_data=None):
    from .terms import dumps

    d = ns().d
    parts = path.parts if isinstance(path, PathT) else path
    kw = {}
    if source_data is not None:
        kw["source_data"] = source_data
    if SHARE is not None and source_data is None:
        key = dumps(list(parts))
        obj = SHARE.get(key)
        if obj is None:
            obj = SHARE[key] = d.DataPath(*[build_part(p) for p in parts])
    else:
        obj = d.DataPath(*[build_part(p) for p in parts], **kw)
    if isinstance(path, PathT):
        obj = apply_modifiers(obj, path)
    return obj


def build_cast(cast):
    ca = ns().ca
    if cast is None:
        return None
    to = {"bool": bool, "int": int}[cast]
    return {str: ca.CAST_LOOKUP[(str, to)]}


def build_rule(r):
    import copy

    return ns().r.Rule(
        path=build_path(r.path),
        condition=build_cond(r.cond),
        cast=build_cast(r.cast),
        doc=copy.deepcopy(r.doc),
    )


def build_schema(s):
    return ns().s.Schema([build_rule(r) for r in s.rules])


# --------------------------------------------------------------------------- exceptions
def exc_sig(clause, exc):
    """Root-cause oriented signature: clause | exception type | innermost valida frame
    (function qualname + stripped source line; no line numbers)."""
    import traceback

    tb = traceback.extract_tb(exc.__traceback__)
    frame = None
    for fr in tb:
        if "/valida/" in fr.filename.replace("\\", "/"):
            frame = fr
    if frame is None:
        where = "outside-valida"
    else:
        where = f"{frame.name}:{(frame.line or '').strip()[:80]}"
    return f"{clause}|{type(exc).__name__}|{where}"


def exc_detail(exc):
    s = f"{type(exc).__name__}: {exc}"
    return s[:300]


_PARAM_NAMES = None


def param_names():
    """Names of the parameters of the library's own comparison callables and condition methods (read from the tree
    under test): candidate KEYWORD names for items_contain, where every keyword names an expected item."""
    global _PARAM_NAMES
    if _PARAM_NAMES is None:
        import inspect
        names = set()
        mods = [ns().callables] if hasattr(ns(), "callables") else []
        try:
            import valida.callables as vc
            mods = [vc]
        except Exception:
            pass
        for m in mods:
            for _, fn in inspect.getmembers(m, inspect.isfunction):
                try:
                    names.update(inspect.signature(fn).parameters)
                except (TypeError, ValueError):
                    pass
        _PARAM_NAMES = sorted(n for n in names if n not in ("self", "cls", "func", "callable"))
    return _PARAM_NAMES
