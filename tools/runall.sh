#!/bin/sh
# tools/runall.sh [quick|thorough] [extra args]  - run every registered check, print exit codes
tier=${1:-quick}; shift
cd "$(dirname "$0")/.." || exit 2
rc=0
for i in $(seq -w 1 20); do
  ./check C$i --tier $tier "$@" > /tmp/vf_runall_$$.txt 2>&1; e=$?
  [ $e -ne 0 ] && rc=1
  echo "C$i exit=$e $(grep -c -E 'HARNESS|VIOLATION|KNOWN' /tmp/vf_runall_$$.txt) | $(tail -1 /tmp/vf_runall_$$.txt | cut -c1-140)"
  [ $e -ne 0 ] && grep -E 'HARNESS|VIOLATION|clause' /tmp/vf_runall_$$.txt | head -5
done
rm -f /tmp/vf_runall_$$.txt
exit $rc
