#!/usr/bin/env python3
"""Import behaviour-preserving refactorings written by sub-agents (/tmp/wt4/out/BNN/{a,b,c}) into /verif/benign/agent-BNN-x/."""
import json, os, shutil
for b in sorted(os.listdir("/tmp/wt4/out")):
    for v in "abc":
        src = f"/tmp/wt4/out/{b}/{v}"
        dst = f"/verif/benign/agent-{b}-{v}"
        if not os.path.exists(f"{src}/patch.diff") or os.path.isdir(dst):
            continue
        os.makedirs(dst)
        shutil.copy(f"{src}/patch.diff", dst)
        if os.path.exists(f"{src}/notes.md"):
            shutil.copy(f"{src}/notes.md", dst)
        json.dump({"what": "behaviour-preserving refactoring written by an independent sub-agent that was given all twenty property statements and asked to keep them true (see notes.md)",
                   "expected": "every check exits 0"}, open(f"{dst}/meta.json", "w"), indent=1)
        print("imported", dst)
