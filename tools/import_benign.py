#!/usr/bin/env python3
"""Import behaviour-preserving refactorings written by sub-agents (/tmp/wt4/out/BNN/{a,b,c}) into /verif/benign/agent-BNN-x/."""
import json, os, shutil
ROOT = "/tmp/wt8/out" if os.path.isdir("/tmp/wt8/out") else "/tmp/wt4/out"
for b in sorted(os.listdir(ROOT)):
    for v in "abc":
        src = f"{ROOT}/{b}/{v}"
        dst = f"/verif/benign/agent-{b}-{v}"
        if not os.path.exists(f"{src}/patch.diff") or os.path.isdir(dst):
            continue
        os.makedirs(dst)
        shutil.copy(f"{src}/patch.diff", dst)
        if os.path.exists(f"{src}/notes.md"):
            shutil.copy(f"{src}/notes.md", dst)
        json.dump({"what": "behaviour-preserving refactoring written by an independent sub-agent that was given all twenty property statements and asked to keep them true (see notes.md)",
                   "expected": "every check exits 0"}, open(f"{dst}/meta.json", "w"), indent=1)
        print("imported", dst)
