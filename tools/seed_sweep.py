#!/usr/bin/env python3
"""tools/seed_sweep.py <seeded name> [seeds...]: detection of one seeded change by its property's quick check at several VERIF_SEED values."""
import json, os, subprocess, sys, shutil
HERE = os.path.dirname(os.path.dirname(os.path.abspath(__file__)))
name = sys.argv[1]; seeds = sys.argv[2:] or ["1", "2", "3", "4", "5"]
meta = json.load(open(f"{HERE}/seeded/{name}/meta.json"))
SCR = f"/root/scratch/sw{os.getpid()}"
subprocess.run(f"rm -rf {SCR}; git clone -q /repo {SCR} && cd {SCR} && git apply {HERE}/seeded/{name}/patch.diff", shell=True, check=True)
out = []
for s in seeds:
    e = dict(os.environ, VERIF_SEED=s)
    c = subprocess.run(f"./check {meta['property']} --tier quick --src {SCR} --no-evidence", shell=True, cwd=HERE, capture_output=True, text=True, env=e)
    import re
    n = sum(int(m) for m in re.findall(r"count=(\d+)", c.stdout))
    out.append(f"{s}:{'Y' if c.returncode == 1 else 'n'}({n})")
shutil.rmtree(SCR, ignore_errors=True)
print(name, " ".join(out))
