#!/usr/bin/env python3
"""False-alarm test: every change in /verif/benign/<name>/patch.diff preserves all twenty properties; every check must
exit 0 on a scratch clone of /repo with the change applied (the repository's suite is run too, informational).
usage: tools/benign.py [--shard=k/n] [--merge] [name ...]"""
import json, os, subprocess, sys, shutil
HERE = os.path.dirname(os.path.dirname(os.path.abspath(__file__)))
SCR = f"/root/scratch/bn{os.getpid()}"
def sh(cmd, cwd=None):
    return subprocess.run(cmd, shell=True, cwd=cwd, capture_output=True, text=True)
SHARD = next((a.split("=")[1] for a in sys.argv[1:] if a.startswith("--shard=")), None)  # k/n -> RESULTS.k.json
ARGS = [a for a in sys.argv[1:] if not a.startswith("--")]
rp = os.path.join(HERE, "benign", "RESULTS.json" if not SHARD else f"RESULTS.{SHARD.split('/')[0]}.json")
res = json.load(open(rp)) if os.path.exists(rp) else {}
names = [n for n in sorted(os.listdir(os.path.join(HERE, "benign"))) if os.path.isdir(os.path.join(HERE, "benign", n))]
if SHARD:
    k_, n_ = map(int, SHARD.split("/"))
    names = names[k_::n_]
for name in names:
    if ARGS and name not in ARGS:
        continue
    shutil.rmtree(SCR, ignore_errors=True)
    sh(f"git clone -q /repo {SCR}")
    a = sh(f"git apply {HERE}/benign/{name}/patch.diff", cwd=SCR)
    if a.returncode:
        print(name, "DOES NOT APPLY", a.stderr[:200]); continue
    suite = sh("/venv/bin/python -m pytest -q -p no:cacheprovider 2>&1 | tail -1", cwd=SCR).stdout.strip()
    alarms = {}
    only = os.environ.get("BENIGN_CHECKS")  # e.g. C07,C09: re-run only these checks (after a change to their generators)
    for i in range(1, 21):
        pid = f"C{i:02d}"
        if only and pid not in only.split(","):
            continue
        c = sh(f"./check {pid} --tier quick --src {SCR} --no-evidence", cwd=HERE)
        if c.returncode != 0:
            alarms[pid] = [l.strip()[:200] for l in c.stdout.splitlines() if "clause=" in l or "HARNESS" in l][:3]
    res[name] = {"suite": suite, "alarms": alarms}
    print(f"{name:32s} suite={suite[:30]!r} alarms={alarms}")
    json.dump(res, open(rp, "w"), indent=1)
shutil.rmtree(SCR, ignore_errors=True)
json.dump(res, open(rp, "w"), indent=1)
if "--merge" in sys.argv:
    import glob
    full = os.path.join(HERE, "benign", "RESULTS.json")
    allr = json.load(open(full)) if os.path.exists(full) else {}
    for f in sorted(glob.glob(os.path.join(HERE, "benign", "RESULTS.*.json"))):
        allr.update(json.load(open(f))); os.remove(f)
    json.dump(allr, open(full, "w"), indent=1)
