#!/usr/bin/env python3
"""Sensitivity: revert every 'fix:' commit of /repo in isolation (scratch clone, never /repo) and confirm that the
check of the property recorded in known_findings.txt reports the violation again.  Writes sensitivity/reverts.json."""
import json, os, re, subprocess, sys, shutil
HERE = os.path.dirname(os.path.dirname(os.path.abspath(__file__)))
SCR = "/root/scratch/rv"
def sh(cmd, cwd=None):
    return subprocess.run(cmd, shell=True, cwd=cwd, capture_output=True, text=True)
fixed = []
for line in open(os.path.join(HERE, "known_findings.txt")):
    m = re.match(r"fixed: property=(C\d+) ([0-9a-f]{7}) (.*)", line.strip())
    if m:
        fixed.append(m.groups())
only = set(sys.argv[1:])
shutil.rmtree(SCR, ignore_errors=True)
sh(f"git clone -q /repo {SCR}")
sh("git config user.email v@v; git config user.name v", cwd=SCR)
rows = []
for pid, commit, text in fixed:
    if only and commit not in only and pid not in only:
        continue
    sh("git reset -q --hard origin/HEAD 2>/dev/null || git reset -q --hard HEAD; git clean -fdq", cwd=SCR)
    r = sh(f"git revert --no-commit {commit}", cwd=SCR)
    state = "reverted"
    if r.returncode != 0:
        sh("git revert --abort; git reset -q --hard HEAD", cwd=SCR)
        state = "conflict"
        rows.append(dict(property=pid, commit=commit, state=state, detected=None, what=text))
        print(pid, commit, "CONFLICT (later commits touch the same lines)")
        continue
    t = sh("/venv/bin/python -m pytest -q -p no:cacheprovider -x 2>&1 | tail -1", cwd=SCR).stdout.strip()
    c = sh(f"./check {pid} --tier quick --src {SCR} --no-evidence", cwd=HERE)
    viol = [l for l in c.stdout.splitlines() if l.startswith("VIOLATION")]
    sigs = [l.strip() for l in c.stdout.splitlines() if "clause=" in l][:3]
    rows.append(dict(property=pid, commit=commit, state=state, suite=t, exit=c.returncode, detected=bool(viol) and c.returncode == 1, sigs=sigs, what=text))
    print(pid, commit, "suite:", t, "| exit", c.returncode, "| detected" if viol else "| MISSED", sigs[:1])
shutil.rmtree(SCR, ignore_errors=True)
os.makedirs(os.path.join(HERE, "sensitivity"), exist_ok=True)
if not only:
    json.dump(rows, open(os.path.join(HERE, "sensitivity", "reverts.json"), "w"), indent=1)
