#!/usr/bin/env python3
"""Regenerates MANIFEST.json from the table below (keeps it schema-valid at all times)."""
import json, os, sys
HERE = os.path.dirname(os.path.dirname(os.path.abspath(__file__)))
BASE = "cd /repo && /venv/bin/python -m pytest -ra -q -p no:cacheprovider --timeout=900 --continue-on-collection-errors"
P = {}
def prop(id, technique, text, note, ref):
    P[id] = dict(technique=technique, text=text, note=note, ref=ref)

TRUST = ("Trusted base: the reference model vf/model.py (written from the documented meaning, imports nothing "
         "from valida), Hypothesis 6.168 as case source (one byte tape per case, decoded by vf/gen.py), CPython 3.12. "
         "Bounded exploration: documents depth<=4 and fan-out<=4 as a rule (rarely chains of 7-10 and 33-65 levels, containers of 9-300 and 1001-1100 items, one container object at two positions), condition trees depth<=3 (rarely operand lists of 101-130), 64-bit finite numbers. Never proves absence.")
ACTIVE = (" The caller is active as well (DESIGN.md 9.5, rounds 6-7): it edits its own document in place between calls (vf/props/edits.py: the next answer follows the document, the earlier result object stands), "
          "edits its own spec structure in place and parses it again (spec.recycled), edits the by-products it was handed, and uses one object at two places of one input.")

prop("C01", "PBT (Hypothesis byte-tape generators) against an independent reference evaluator; exhaustive over the 149 leaf shapes",
     "Exploration: every DSL-reachable leaf shape (kind x pre-processor x callable) is enumerated; arguments of every JSON-like type and list/mapping documents are generated; filter result, partition views and all entry points are compared with an independent reference evaluator in which any undefined comparison means 'not satisfied'. Any escaping exception is a violation.",
     TRUST + ACTIVE, "DESIGN.md 3/C01")

prop("C02", "PBT: generated call histories (model-based: program-as-data and a Hypothesis RuleBasedStateMachine over one step interpreter) + one-shot deep trees against reference Boolean algebra; object-graph fingerprints for operand immutability; atheris in the thorough tier",
     "Exploration: histories of build steps (leaf, null, &,|,^, combine-with-null on either side, same/different-operator-then-null family enumerated, spec lists with nesting, operand reuse) are generated; after EVERY step every pool member is re-filtered on probe documents and compared with the reference algebra (null = identity), and the structural fingerprint of every pre-existing member must be unchanged. Deep random trees (depth<=6) via DSL and via spec lists are compared one-shot.",
     TRUST + ACTIVE, "DESIGN.md 3/C02")
prop("C03", "PBT: document-guided path generation against a reference frontier walk; differential over 5 entry points",
     "Exploration: paths mixing primitive/map/list/map-or-list parts with condition trees are drawn by walking the generated document (plus injected misses); the selection (values and concrete paths, order, concrete->node|None, non-concrete->list) is compared with an independent part-by-part walk for all five entry points.",
     TRUST + ACTIVE, "DESIGN.md 3/C03")
prop("C04", "PBT with exhaustive modifier grid per generated (path, document); truthfulness by re-walking reported paths",
     "Exploration: for each generated (document, path) the whole datum x multiplicity x order x return_paths grid is enumerated; reported paths are re-walked on the original document, must be pairwise distinct, and every modifier result is compared with the reference (first/last/single/all, ValueError on several for single, refusal on concrete paths).",
     TRUST + ACTIVE, "DESIGN.md 3/C04")
prop("C05", "PBT against reference rule test (selection x condition tree), raw and wrapped input",
     "Exploration: rules (document-guided path x value-kind condition tree, ill-typed arguments included) are tested on generated documents; is_valid, tested, the failure list (values, true concrete paths, order), num_failures and non-empty reasons are compared with the reference.",
     TRUST + ACTIVE, "DESIGN.md 3/C05")
prop("C06", "PBT with exhaustive permutation of the rule list (<=4 rules: all 24; 5 rules: 12 drawn) against reference conjunction",
     "Exploration: cast-free schemas are validated in every permutation of their rule list; verdict, failure sum, tested count/fraction, stable shortest-path-first order, the multiset of (rule, failing path) and the textual report (always str, names every failing path) are compared with the reference for each permutation.",
     TRUST + ACTIVE, "DESIGN.md 3/C06")
prop("C07", "PBT/fuzzing for crash-freedom: hostile documents x full callable set x casts, exceptions bucketed by (type, innermost valida frame)",
     "Exploration: schemas over all callables (well-typed arguments) with and without casts on hostile documents; Schema.validate and Rule.test must return result objects; any escaping exception is a violation bucketed by root cause so the search continues behind known ones.",
     TRUST + ACTIVE, "DESIGN.md 3/C07")

prop("C08", "PBT over generated call histories (model-based: program-as-data and a Hypothesis RuleBasedStateMachine over one step interpreter): before/after snapshots, object-graph fingerprints, harness-side attribute-write tracer, differential against freshly built objects",
     "Exploration: histories of filter/get/test/validate calls sharing schema, rule, condition, path and document objects; after every call the documents are type-exactly unchanged and un-aliased, every shared object's fingerprint is unchanged, the write tracer saw no attribute write to a pre-existing object, and the result equals the same call on fresh objects and the first time it was made. Thread schedules are covered by the no-shared-write argument; a threaded stress run in the thorough tier is corroboration only.",
     TRUST + " Interleavings are sequential; schedules are not enumerated.", "DESIGN.md 3/C08")
prop("C09", "PBT, exhaustive over spec-expressible leaf shapes x generated spellings; differential spec-built vs DSL-built (== and behaviour) plus reference model",
     "Exploration: every spec-expressible leaf shape with generated arguments, argument shapes, spellings (case, aliases, type names), nesting in and/or/xor lists, data-path arguments and escaped literals; from_spec(spec) must equal the DSL object (both directions) and filter identically (also vs the reference).",
     TRUST + ACTIVE, "DESIGN.md 3/C09")
prop("C10", "PBT: generated spec spellings for parts, paths, path strings, rules and YAML text; differential parsed vs API-built (== and behaviour vs reference)",
     "Exploration: part specs (long/shorthand forms, labels, default type), path specs with suffixes in either order, delimiter strings with numeric tokens, rule specs with casts and every doc shape, and YAML text (block/flow, via text and via file) must parse to objects equal to the API-built ones, with the doc normal form, and behave like the reference on probe documents.",
     TRUST + " ruamel.yaml is trusted for the YAML pre-check.", "DESIGN.md 3/C10")
prop("C11", "PBT round trip (to_json_like -> real JSON text -> from_json_like), exhaustive over the meaningful DSL's leaf shapes; re-serialisation fixed point",
     "Exploration: every leaf shape of the meaningful DSL with JSON-representable, type, data-path and path-looking-literal arguments, nested to depth 4: the JSON-like form must survive json.dumps/loads type-exactly, rebuild to an equal condition that filters identically (also vs the reference), and serialise to the same data again.",
     TRUST + ACTIVE, "DESIGN.md 3/C11")
prop("C12", "PBT round trip of path part specs through real JSON; behavioural comparison with original and reference walk; refusal accepted",
     "Exploration: paths built through the API, from part specs and from delimiter strings (conditioned, combined, labelled parts): to_part_specs either raises or yields specs that survive JSON and rebuild a path selecting the same nodes and concrete paths as the original and as the reference, equal to the original when that was spec-built, labels kept.",
     TRUST + ACTIVE, "DESIGN.md 3/C12")
prop("C13", "PBT round trip of rules and schemas through real JSON text, casts included; behaviour vs original and reference on hostile documents",
     "Exploration: schemas in the C11/C12 fragment with and without casts: json.dumps of the JSON-like form must succeed, the rebuilt schema/rule must equal the original and give the same validity, failures and exact cast data as the original and the reference.",
     TRUST + ACTIVE, "DESIGN.md 3/C13")
prop("C14", "PBT over derived term pairs (rebuilt / commuted / one atom changed): equivalence-relation laws and 'equal implies same behaviour' (behaviour observed on the library, observability judged by the reference)",
     "Exploration: for terms of every class, rebuilt and commuted copies must compare equal; reflexivity, symmetry and transitivity are checked over all pairs/triples of {x, rebuilt, commuted, atom-changed, commuted-rebuilt}; whenever two objects compare equal they must behave identically on probe documents. Atom changes are made observable by guiding them with the document.",
     TRUST + ACTIVE, "DESIGN.md 3/C14")
prop("C15", "PBT with cast-directed generation against a reference cast model; aliasing and input-snapshot checks",
     "Exploration: schemas with str->bool / str->int casts over every path shape on documents rich in castable and uncastable strings; cast_data must be exactly the input with the reference replacements, verdicts judged on the copy, input unchanged and not aliased, stand-alone Rule.test likewise.",
     TRUST + ACTIVE, "DESIGN.md 3/C15")
prop("C16", "PBT over parse histories of one spec structure (repeated parses through all entry points, sub-structure parses); type- and order-exact snapshots",
     "Exploration: well-formed specs of every class in every spelling are parsed 2-6 times (and their sub-structures in between); the caller's structure must stay type-exactly unchanged and every re-parse must equal and behave like the first.",
     TRUST + ACTIVE, "DESIGN.md 3/C16")

prop("C17", "PBT, metamorphic (path argument vs resolved literal) plus reference model; document-guided cross-references; spec and escaped spellings",
     "Exploration: rules whose conditions have data-path arguments in every argument position (with modifiers, absent references, via DataPath objects and via specs) must give the same verdict and failures as the same rule with the argument replaced by the literal the reference resolves, and both must equal the reference rule test; escaped '\\path' literals are compared literally.",
     TRUST + ACTIVE, "DESIGN.md 3/C17")
prop("C18", "PBT over generated add_schema/validate histories (model-based: program-as-data and a Hypothesis RuleBasedStateMachine over one step interpreter): expected rule lists built from part objects, reference validation, fingerprints of T, metamorphic T-at-root cross-check",
     "Exploration: histories adding the same T under different roots into the same and into different S, with validations in between; after every step S.rules equals the model's expected list, S validates like the reference over the expected rule terms, and every T is unchanged (fingerprint, equality with a fresh T, behaviour).",
     TRUST + ACTIVE, "DESIGN.md 3/C18")
prop("C19", "fault injection from an enumerated catalogue of definite spec errors (must be rejected with a spec error) + structural mutation fuzzing of well-formed specs (must be accepted or cleanly rejected); exception-type oracle bucketed by frame",
     "Exploration: every class of the catalogue of definite errors is enumerated and injected into generated well-formed specs at every nesting position: the parser must raise a Malformed* error, TypeError, ValueError or KeyError(missing field) and never accept; arbitrary 1-4 step structural mutations must be accepted or rejected with a listed type, never with AttributeError / IndexError / StopIteration / RuntimeError / RecursionError.",
     TRUST + " Level fault_enumeration would also fit tier A; exploration is claimed for the whole check.", "DESIGN.md 3/C19")
prop("C20", "PBT over generated prefix-closed schema trees with sentinel-bearing strings; structural model of the documentation tree; strict HTML tag-stack parser",
     "Exploration: prefix-closed schemas (string/integer keys, bare map/list parts, and-combinations of type/length/membership/allowed/required-keys conditions, docs with metacharacters) for every sub-tree root, nested and flat, with and without anchor: rule/node bijection, parent-prefix order, flat==nested, required flags vs the model, HTML well-formed under a strict tag stack with every schema string only in escaped form.",
     TRUST + " Python's html.parser is trusted as HTML tokenizer.", "DESIGN.md 3/C20")

BUILT = [l.strip() for l in open(os.path.join(HERE, "tools", "built.txt")) if l.strip()]
ALL = [f"C{i:02d}" for i in range(1, 21)]
checks = []
for id in ALL:
    if id in BUILT:
        p = P[id]
        checks.append({
            "property_id": id,
            "quick_cmd": f"./check {id} --tier quick",
            "thorough_cmd": f"./check {id} --tier thorough",
            "evidence_file": f"/verif/evidence/{id}.json",
            "replay_cmd_template": f"./check {id} --replay {{path}}",
            "engine": "vf",
            "level_claimed": {"category": "exploration", "text": p["text"], "design_ref": p["ref"]},
            "level_note": p["note"],
            "technique": p["technique"],
        })
m = {
    "version": 1,
    "setup_cmd": "/venv/bin/python -c 'import hypothesis' 2>/dev/null || /venv/bin/python -m pip install -q --no-index --find-links /opt/veriftools/wheels hypothesis",
    "hooks": {
        "guard": "VALIDA_VERIF",
        "enable": "no source hooks: every observation point is public API; attribute-write tracing wraps valida classes' __setattr__ from the harness at import time (vf/snapshot.py). Checks import valida from /repo's working tree (sys.path[0]=/repo).",
        "baseline_off_cmd": BASE,
        "source_commits": [],
        "add_only": True,
    },
    "engines": [{"name": "vf", "path": "/verif/vf", "serves_properties": BUILT,
                 "kind_free_text": "Hypothesis-driven generated search (byte-tape decoders, sharded over processes, collect-then-shrink on the tape, signature-bucketed violations; RuleBasedStateMachine drivers for the history properties) against a reference model / round-trip / differential / metamorphic oracles; atheris (libFuzzer) coverage-guided fuzzing over the same decoders and bodies in every thorough tier"}],
    "checks": checks,
    "notes": "See DESIGN.md (section 9 = as built). known_findings.txt lists the 34 repaired defects ('fixed:' entries suppress nothing); there are no 'known:' entries. seeded/ holds ~130 changes that break a property (all reported by the quick checks), benign/ holds ~38 property-preserving changes (no check raises an alarm); tools/seeded.py, tools/benign.py, tools/revert_check.py re-run them.",
    "not_applicable": [{"property_id": id, "reason": "check under construction in this session (generated-search design in DESIGN.md section 3); claimed as soon as it is built and quiet on the unchanged tree"} for id in ALL if id not in BUILT],
}
json.dump(m, open(os.path.join(HERE, "MANIFEST.json"), "w"), indent=1)
print("built:", BUILT)
