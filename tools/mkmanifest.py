#!/usr/bin/env python3
"""Regenerates MANIFEST.json from the table below (keeps it schema-valid at all times)."""
import json, os, sys
HERE = os.path.dirname(os.path.dirname(os.path.abspath(__file__)))
BASE = "cd /repo && /venv/bin/python -m pytest -ra -q -p no:cacheprovider --timeout=900 --continue-on-collection-errors"
P = {}
def prop(id, technique, text, note, ref):
    P[id] = dict(technique=technique, text=text, note=note, ref=ref)

TRUST = ("Trusted base: the reference model vf/model.py (written from the documented meaning, imports nothing "
         "from valida), Hypothesis 6.168 as case source (one byte tape per case, decoded by vf/gen.py), CPython 3.12. "
         "Bounded exploration: documents depth<=3, fan-out<=4, condition trees depth<=3, 64-bit finite numbers. Never proves absence.")

prop("C01", "PBT (Hypothesis byte-tape generators) against an independent reference evaluator; exhaustive over the 149 leaf shapes",
     "Exploration: every DSL-reachable leaf shape (kind x pre-processor x callable) is enumerated; arguments of every JSON-like type and list/mapping documents are generated; filter result, partition views and all entry points are compared with an independent reference evaluator in which any undefined comparison means 'not satisfied'. Any escaping exception is a violation.",
     TRUST, "DESIGN.md 3/C01")

BUILT = [l.strip() for l in open(os.path.join(HERE, "tools", "built.txt")) if l.strip()]
ALL = [f"C{i:02d}" for i in range(1, 21)]
checks = []
for id in ALL:
    if id in BUILT:
        p = P[id]
        checks.append({
            "property_id": id,
            "quick_cmd": f"./check {id} --tier quick",
            "thorough_cmd": f"./check {id} --tier thorough",
            "evidence_file": f"/verif/evidence/{id}.json",
            "replay_cmd_template": f"./check {id} --replay {{path}}",
            "engine": "vf",
            "level_claimed": {"category": "exploration", "text": p["text"], "design_ref": p["ref"]},
            "level_note": p["note"],
            "technique": p["technique"],
        })
m = {
    "version": 1,
    "setup_cmd": "/venv/bin/python -c 'import hypothesis' 2>/dev/null || /venv/bin/python -m pip install -q --no-index --find-links /opt/veriftools/wheels hypothesis",
    "hooks": {
        "guard": "VALIDA_VERIF",
        "enable": "no source hooks: every observation point is public API; attribute-write tracing wraps valida classes' __setattr__ from the harness at import time (vf/snapshot.py). Checks import valida from /repo's working tree (sys.path[0]=/repo).",
        "baseline_off_cmd": BASE,
        "source_commits": [],
        "add_only": True,
    },
    "engines": [{"name": "vf", "path": "/verif/vf", "serves_properties": BUILT,
                 "kind_free_text": "Hypothesis-driven generated search (byte-tape decoders, sharded over processes, collect-then-shrink, signature-bucketed violations) against a reference model / round-trip / metamorphic oracles; atheris coverage-guided fuzzing over the same decoders in thorough tiers"}],
    "checks": checks,
    "notes": "See DESIGN.md. known_findings.txt lists fixed defects ('fixed:' entries suppress nothing) and recorded findings ('known:').",
    "not_applicable": [{"property_id": id, "reason": "check under construction in this session (generated-search design in DESIGN.md section 3); claimed as soon as it is built and quiet on the unchanged tree"} for id in ALL if id not in BUILT],
}
json.dump(m, open(os.path.join(HERE, "MANIFEST.json"), "w"), indent=1)
print("built:", BUILT)
