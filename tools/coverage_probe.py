#!/usr/bin/env python3
"""Which lines of valida do the checks execute?  Runs every test of every property in-process (a few hundred cases
each, driven by hash-expanded tapes) under sys.monitoring (3.12) and prints the lines of valida/*.py never executed."""
import sys, os, hashlib, ast, collections
HERE = os.path.dirname(os.path.dirname(os.path.abspath(__file__)))
sys.path.insert(0, HERE)
from vf import runner
src = runner.setup_repo(os.environ.get("VERIF_REPO", "/repo"))
N = int(sys.argv[1]) if len(sys.argv) > 1 else 300
hit = collections.defaultdict(set)
mon = sys.monitoring
TOOL = mon.COVERAGE_ID
mon.use_tool_id(TOOL, "vfcov")
def on_line(code, line):
    fn = code.co_filename
    if "/valida/" in fn:
        hit[fn].add(line)
    return mon.DISABLE
mon.register_callback(TOOL, mon.events.LINE, on_line)
mon.set_events(TOOL, mon.events.LINE)
import valida, valida.conditions, valida.datapath, valida.rules, valida.schema, valida.data, valida.casting, valida.callables, valida.utils  # noqa
def tape(seed, n):
    buf = b""; k = 0
    while len(buf) < n:
        buf += hashlib.blake2b(f"{seed}:{k}".encode(), digest_size=64).digest(); k += 1
    return buf[:n]
for i in range(1, 21):
    prop = runner.load_prop(f"C{i:02d}")
    for t in prop.tests("quick"):
        factors = t.factors if t.factors is not None else [None]
        per = max(3, N // len(factors))
        col = runner.Collector()
        for fi, f in enumerate(factors):
            for j in range(per):
                try:
                    case = t.decode(tape(f"{prop.ID}{t.name}{fi}{j}", t.tape), f)
                    runner.run_body(t, case, col, {"factor": fi, "shard": 0, "seed": 0, "n": 1}, timeout=None)
                except Exception:
                    pass
mon.set_events(TOOL, 0)
total = missing_total = 0
for fn in sorted(os.listdir(os.path.join(src, "valida"))):
    if not fn.endswith(".py"):
        continue
    path = os.path.join(src, "valida", fn)
    tree = ast.parse(open(path).read())
    lines = set()
    for node in ast.walk(tree):
        if isinstance(node, ast.stmt) and not isinstance(node, (ast.FunctionDef, ast.ClassDef, ast.Import, ast.ImportFrom)):
            if isinstance(node, ast.Expr) and isinstance(getattr(node, "value", None), ast.Constant) and isinstance(node.value.value, str):
                continue
            lines.add(node.lineno)
    missing = sorted(lines - hit.get(path, set()))
    total += len(lines); missing_total += len(missing)
    print(f"{fn}: {len(lines) - len(missing)}/{len(lines)} statements executed; never executed: {missing}")
print(f"TOTAL {total - missing_total}/{total}")
