#!/usr/bin/env python3
"""Import sub-agent outputs /tmp/wt/out/<ID>/<variant>/ into /verif/seeded/<ID>-<variant>/ (patch.diff, demo.py, notes.md, meta.json)."""
import json, os, shutil, sys
DESC = json.load(open(os.path.join(os.path.dirname(__file__), "seed_desc.json")))
for key, (what, needs) in DESC.items():
    pid, var = key.split("-")
    src = f"/tmp/wt/out/{pid}/{var}"
    dst = f"/verif/seeded/{key}"
    if not os.path.isdir(src) or os.path.isdir(dst):
        continue
    os.makedirs(dst)
    for f in ("patch.diff", "demo.py", "notes.md"):
        if os.path.exists(os.path.join(src, f)):
            shutil.copy(os.path.join(src, f), dst)
    json.dump({"property": pid, "origin": "independent sub-agent given only the property text and a scratch worktree of /repo",
               "what": what, "needs": needs,
               "ran": f"tools/seeded.py {key}  (scratch clone of /repo + git apply; suite; demo with/without patch; ./check {pid} --tier quick --src <scratch>)"},
              open(os.path.join(dst, "meta.json"), "w"), indent=1)
    print("imported", key)
