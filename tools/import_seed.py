#!/usr/bin/env python3
"""Import sub-agent outputs into /verif/seeded/<ID>-<variant>/ (patch.diff, demo.py, notes.md, meta.json).
Round 1 lives in /tmp/wt/out/<ID>/{a,b}; round 2 in /tmp/wt2/out/<ID>/{a,b} and is stored as <ID>-c / <ID>-d."""
import json, os, shutil, sys
DESC = json.load(open(os.path.join(os.path.dirname(__file__), "seed_desc.json")))
SRC = {"a": ("/tmp/wt/out", "a"), "b": ("/tmp/wt/out", "b"), "c": ("/tmp/wt2/out", "a"), "d": ("/tmp/wt2/out", "b"),
       "e": ("/tmp/wt3/out", "a"), "f": ("/tmp/wt3/out", "b"),
       "g": ("/tmp/wt5/out", "a"), "h": ("/tmp/wt5/out", "b"),
       "i": ("/tmp/wt6/out", "a"), "j": ("/tmp/wt6/out", "b"),
       "k": ("/tmp/wt7/out", "a"), "l": ("/tmp/wt7/out", "b"),
       "m": ("/tmp/wt9/out", "a"), "n": ("/tmp/wt9/out", "b"),
       "o": ("/tmp/wt10/out", "a"), "p": ("/tmp/wt11/out", "a")}
for key, (what, needs) in DESC.items():
    pid, var = key.split("-")
    root, v = SRC[var]
    src = f"{root}/{pid}/{v}"
    dst = f"/verif/seeded/{key}"
    if not os.path.isdir(src) or os.path.isdir(dst):
        continue
    os.makedirs(dst)
    for f in ("patch.diff", "demo.py", "notes.md"):
        if os.path.exists(os.path.join(src, f)):
            shutil.copy(os.path.join(src, f), dst)
    json.dump({"property": pid, "origin": "independent sub-agent given only the property text and a scratch worktree of /repo" + (" (second round: asked for narrow-region changes different from the first round)" if var in "cd" else " (third round: asked for changes needing a conjunction of two specific circumstances)" if var in "ef" else " (fourth round: asked for threshold / numeric / unicode / order corners that a broad randomized campaign does not reach)" if var in "gh" else " (fifth round: asked for realistic maintainer slips - caching, early exits, aliasing, dropped cases - inside the property's quantification, told what the campaign already covers)" if var in "ij" else " (sixth round: asked for changes invisible to any single call on fresh objects - state kept between calls, aliasing, objects changed by use, live views, order dependence)" if var in "kl" else " (seventh round: the agent was given a full description of what the campaign does after round 6 and asked for a change it does NOT reach)" if var in "mn" else " (eighth round: asked for a change that needs a multi-step sequence on the same objects, an unusual-but-legal input shape, a combination of two features or two cooperating code sites; user callables, container subclasses, NaN, >64-bit integers, threads and recursion-limit effects ruled out)" if var in "o" else " (ninth round: as the eighth, and told that value-keyed caches, state between calls, in-place mutation, aliasing and first-modifier early exits had been tried: asked for dropped / merged dispatch cases, wrong operators or boundaries, wrong operand, order, a field lost on one of several routes, numeric / empty / None corners)" if var in "p" else ""),
               "what": what, "needs": needs,
               "ran": f"tools/seeded.py {key}  (scratch clone of /repo + git apply; suite; demo with/without patch; ./check {pid} --tier quick --src <scratch>)"},
              open(os.path.join(dst, "meta.json"), "w"), indent=1)
    print("imported", key)
