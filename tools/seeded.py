#!/usr/bin/env python3
"""Run the registered checks against every seeded change in /verif/seeded/<id>/ (patch.diff, demo.py, meta.json).

For each: scratch copy of /repo (never /repo itself), `git apply patch.diff`, the repository's own suite must still pass,
the demonstration must fail with the change and pass without it, then the quick check(s) of the property (and, with
--all, every check) are run with --src <scratch>.  Results go to seeded/RESULTS.json and are printed as a table.
usage: tools/seeded.py [--all] [--thorough] [--shard=k/n] [--merge] [name ...]"""
import json, os, subprocess, sys, shutil, time
HERE = os.path.dirname(os.path.dirname(os.path.abspath(__file__)))
SEED = os.path.join(HERE, "seeded")
SCR = f"/root/scratch/sd{os.getpid()}"
args = [a for a in sys.argv[1:] if not a.startswith("--")]
SHARD = next((a.split("=")[1] for a in sys.argv[1:] if a.startswith("--shard=")), None)  # k/n: every n-th change, results in RESULTS.k.json
ALL = "--all" in sys.argv
TIER = "thorough" if "--thorough" in sys.argv else "quick"
def sh(cmd, cwd=None, env=None, timeout=3600):
    e = dict(os.environ); e.update(env or {})
    return subprocess.run(cmd, shell=True, cwd=cwd, capture_output=True, text=True, env=e, timeout=timeout)
results = {}
res_path = os.path.join(SEED, "RESULTS.json" if not SHARD else f"RESULTS.{SHARD.split('/')[0]}.json")
RES = next((a.split("=")[1] for a in sys.argv[1:] if a.startswith("--res=")), None)  # separate results file (parallel runs)
if RES:
    res_path = os.path.join(SEED, f"RESULTS.{RES}.json")
if os.path.exists(res_path):
    results = json.load(open(res_path))
names = sorted(d for d in os.listdir(SEED) if os.path.isdir(os.path.join(SEED, d)))
if SHARD:
    k, n = map(int, SHARD.split("/"))
    names = names[k::n]
for name in names:
    if args and name not in args:
        continue
    d = os.path.join(SEED, name)
    meta = json.load(open(os.path.join(d, "meta.json")))
    shutil.rmtree(SCR, ignore_errors=True)
    sh(f"git clone -q /repo {SCR}")
    row = {"property": meta["property"], "needs": meta.get("needs", "")}
    demo = os.path.join(d, "demo.py")
    if os.path.exists(demo):
        r = sh(f"/venv/bin/python {demo}", cwd=SCR, env={"PYTHONPATH": SCR})
        row["demo_clean"] = "pass" if r.returncode == 0 else f"FAILS-ON-CLEAN({r.returncode})"
    a = sh(f"git apply {os.path.join(d, 'patch.diff')}", cwd=SCR)
    if a.returncode != 0:
        row["apply"] = "FAILED: " + a.stderr.strip()[:200]
        results[name] = row
        print(name, row)
        continue
    row["suite"] = sh("/venv/bin/python -m pytest -q -p no:cacheprovider 2>&1 | tail -1", cwd=SCR).stdout.strip()
    if os.path.exists(demo):
        r = sh(f"/venv/bin/python {demo}", cwd=SCR, env={"PYTHONPATH": SCR})
        row["demo_patched"] = "fails" if r.returncode != 0 else "PASSES-WITH-PATCH"
    props = [meta["property"]] + [p for p in meta.get("also", [])]
    if ALL:
        props = [f"C{i:02d}" for i in range(1, 21)]
    det = {}
    for pid in props:
        t0 = time.time()
        c = sh(f"./check {pid} --tier {TIER} --src {SCR} --no-evidence", cwd=HERE)
        sigs = [l.strip() for l in c.stdout.splitlines() if "clause=" in l][:2]
        det[pid] = {"exit": c.returncode, "detected": c.returncode == 1 and "VIOLATION" in c.stdout, "sigs": sigs, "wall": round(time.time() - t0, 1)}
    row["checks"] = det
    row["detected_by"] = sorted(p for p, v in det.items() if v["detected"])
    row["tier"] = TIER
    results[name] = row
    print(f"{name:28s} prop={meta['property']} suite={row['suite'][:12]!r} demo={row.get('demo_clean')}/{row.get('demo_patched')} detected_by={row['detected_by']}")
    shutil.rmtree(SCR, ignore_errors=True)
    json.dump(results, open(res_path, "w"), indent=1, sort_keys=True)
if "--merge" in sys.argv:
    import glob
    for f in sorted(glob.glob(os.path.join(SEED, "RESULTS.*.json"))):
        results.update(json.load(open(f)))
        os.remove(f)
    json.dump(results, open(os.path.join(SEED, "RESULTS.json"), "w"), indent=1, sort_keys=True)
